"""Build-time helper: regenerate MANIFEST.json from the property modules."""
import importlib, json, os, sys
ROOT = os.path.dirname(os.path.dirname(os.path.abspath(__file__)))
sys.path.insert(0, ROOT)
TECH = {
 "C01": "runtime invariant monitor on lexer output (M-LEX) over generated workloads",
 "C02": "runtime monitor: tokens captured at Parser.parse entry vs tree leaves at exit",
 "C03": "runtime structural invariant walk over every parse-tree node + indent balance",
 "C04": "exception-boundary monitor + logger listener over hostile workloads (API, paths, CLI)",
 "C05": "hook on BaseRule._log_critical_errors + violation scan under fix workloads",
 "C06": "differential shadow execution (cache off / pruning off / history / fresh process)",
 "C07": "wrapper on TemplatedFile.__init__ checking constructor arguments (M-TF)",
 "C08": "reference-model monitor: plain Jinja render vs sqlfluff's primary rendering",
 "C09": "reference-model monitor: string.Formatter / regex splice models vs templaters",
 "C10": "before/after oracle with an independent template-code extractor around real fixes",
 "C11": "byte-level before/after oracle around the real CLI fix in fresh processes",
 "C12": "runtime oracle: fixed tree leaves vs re-lex of fixed text",
 "C13": "runtime oracle: re-lint of the fixed text of error-free sources",
 "C14": "runtime oracle: code-token sequence / comment multiset before vs after layout fixes",
 "C15": "runtime oracle: token-wise case-insensitive equality before vs after capitalisation fixes",
 "C16": "differential execution against SQLite before/after fixing generated queries",
 "C17": "runtime oracle: second fix pass must be the identity",
 "C18": "file-state + stdout oracle around real CLI/API runs on files with TMP/PRS errors; log listener for loop limit",
 "C19": "differential execution of the three entry points in fresh processes",
 "C20": "reference-interpreter monitor vs real IgnoreMask (exhaustive small scope) + end-to-end differential",
 "C21": "reference selection model + crawl hook; single-rule vs all-rules differential",
 "C22": "exit-code reference model vs real CLI processes",
 "C23": "runtime oracle over every violation / fix dict (bounds, offset<->line/col) incl. CLI machine output",
 "C24": "schedule injection in pool workers via sitecustomize monitor; serial vs parallel differential",
 "C25": "reference model (os.walk + pathspec) vs paths_from_path in fresh processes per spelling",
 "C26": "fault enumeration: traced fs-op list, failure/kill injected at every op index in fresh processes",
 "C27": "precedence reference model vs observable behaviour of real CLI runs; isolation differential",
 "C28": "runtime oracle: tree leaves vs every serialisation (JSON/YAML/human/API) round-tripped",
 "C29": "exhaustive walk of each loaded dialect grammar graph + lexer totality sweep",
 "C30": "exhaustive small-scope patch sets through the real merge/apply functions vs splice model; recorded real patch sets",
 "C31": "exhaustive small-scope strings/offsets vs count-newlines model; shadow wrapper on production calls",
 "C32": "sys.addaudithook write monitor + history differential across processes and hash seeds",
 "C33": "runtime oracle on reported violation lists over looped / multi-variant templates",
 "C34": "lex/parse call-count monitor + CLI exit oracle around size limits",
}
checks = []
for i in range(1, 35):
    pid = f"C{i:02d}"
    m = importlib.import_module(f"vfw.props.{pid}")
    checks.append({
        "property_id": pid,
        "quick_cmd": f"./check {pid} --tier quick",
        "thorough_cmd": f"./check {pid} --tier thorough",
        "evidence_file": f"evidence/{pid}.json",
        "replay_cmd_template": f"./check {pid} --replay {{path}}",
        "engine": "vfw",
        "level_claimed": {"category": m.LEVEL, "text": (m.__doc__ or pid).strip() + " Held on the executions produced (counts in the evidence file); " + ("finite space enumerated completely in the thorough tier." if getattr(m, "EXHAUSTIVE", {}).get("thorough") else "seeded sample (quick) / whole frozen universe (thorough)."), "design_ref": f"DESIGN.md §5 {pid}"},
        "level_note": "; ".join(getattr(m, "ASSUMPTIONS", [])) or "held on observed executions only",
        "technique": TECH[pid],
    })
manifest = {
 "version": 1,
 "setup_cmd": "/venv/bin/pip install -q --no-index --find-links /opt/veriftools/wheels --target .deps icontract || true",
 "hooks": {
  "guard": "SQLFLUFF_VERIF",
  "enable": "no source hooks in /repo: every monitor is a wrapper installed from /verif/vfw at import time inside the check's own worker processes (fresh interpreters importing /repo/src as it is now); CLI subprocesses and their spawn pool workers get monitors through vfw/site/sitecustomize.py on PYTHONPATH, active only when SQLFLUFF_VERIF=1 and VP_MONITORS is set",
  "baseline_off_cmd": "cd /repo && /venv/bin/python -m pytest -ra -q -p no:cacheprovider --timeout=900 --continue-on-collection-errors",
  "source_commits": [],
  "add_only": True,
 },
 "engines": [{"name": "vfw", "path": "vfw/", "serves_properties": [c["property_id"] for c in checks], "kind_free_text": "runtime monitoring framework: own worker pool with watchdog, monitors installed as wrappers, reference models, frozen case universes, known-findings triage"}],
 "checks": checks,
 "notes": "Genuine defects repaired in /repo are the commits whose message starts with 'fix:'; listed defects are in known_findings.json (see DESIGN.md §6).",
 "not_applicable": [],
}
json.dump(manifest, open(os.path.join(ROOT, "MANIFEST.json"), "w"), indent=1)
print(len(checks), "checks")
