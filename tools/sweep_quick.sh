#!/bin/sh
# build-time aid: run every quick check on the real /repo for one VERIF_SEED, two checks at a time, and collect exit codes + summary lines.
# usage: tools/sweep_quick.sh <seed> <outdir> [props...]
SEED=$1; OUT=$2; shift 2
mkdir -p $OUT
PROPS=${*:-$(seq -f "C%02g" 1 34)}
cd /verif
run() { p=$1; s=$(date +%s); VERIF_SEED=$SEED PYTHONHASHSEED=0 VFW_JOBS=8 ./check $p --tier quick > $OUT/$p.out 2>&1; rc=$?; echo "$p seed=$SEED rc=$rc $(( $(date +%s) - s ))s $(grep -c '^VIOLATION' $OUT/$p.out) violations | $(tail -1 $OUT/$p.out | cut -c1-200)" >> $OUT/summary.txt; }
set -- $PROPS
while [ $# -gt 0 ]; do
  run $1 & a=$!
  if [ $# -gt 1 ]; then run $2 & b=$!; shift; else b=""; fi
  shift
  wait $a; [ -n "$b" ] && wait $b
done
