"""Build-time: refresh the generated tables of DESIGN.md (findings, seeded changes, cost) between their markers."""
import re, subprocess, sys, os, json, glob
D = "/verif/DESIGN.md"
s = open(D).read()
def put(tag, body):
    global s
    a, b = f"<!-- {tag}-BEGIN -->", f"<!-- {tag}-END -->"
    i, j = s.index(a) + len(a), s.index(b)
    s = s[:i] + "\n" + body.strip("\n") + "\n" + s[j:]
put("FINDINGS", subprocess.run(["/venv/bin/python", "/verif/tools/findings_table.py"], capture_output=True, text=True).stdout)
put("SEED-TABLE", subprocess.run(["/venv/bin/python", "/verif/tools/seed_table.py"], capture_output=True, text=True).stdout)
if len(sys.argv) > 1:  # directories of tools/sweep_quick.sh outputs
    rows = {}
    for d in sys.argv[1:]:
        for l in open(os.path.join(d, "summary.txt")):
            m = re.match(r"(C\d\d) seed=(\d+) rc=(\d+) (\d+)s (\d+) violations \| \[C\d\d\] tier=quick seed=\d+ cases=(\d+) decided=(\d+) nontrivial=(\d+)", l)
            if m:
                p, seed, rc, secs, v, cases, dec, nt = m.groups()
                rows.setdefault(p, []).append((int(seed), int(rc), int(secs), int(cases), int(nt)))
    out = ["| check | quick: cases (seed 0) | non-trivial | wall s per seed (exit) |", "|---|---|---|---|"]
    for p in sorted(rows):
        r = sorted(rows[p])
        out.append(f"| {p} | {r[0][3]} | {r[0][4]} | " + ", ".join(f"s{x[0]}: {x[2]} ({x[1]})" for x in r) + " |")
    put("COST", "\n".join(out))
open(D, "w").write(s)
