"""Build-time: turn the seed-matrix log (tools/seed_matrix.sh) into seeded/results.json (latest line per seed wins)."""
import json, re, sys
src = sys.argv[1] if len(sys.argv) > 1 else "/tmp/seedmatrix.txt"
R = {}
for l in open(src):
    m = re.match(r"(C\d\d-[a-z]) rc=(\d+) violations=(\d+) (\d+)s\s*(.*)", l.strip())
    if not m:
        continue
    n, rc, v, secs, rest = m.groups()
    sigs = [re.sub(r"^\d+\s+sig=", "", x.strip()) for x in rest.split(";") if x.strip()]
    R[n] = {"check": n.split("-")[0] + " quick", "exit": int(rc), "violations": int(v), "wall_s": int(secs),
            "caught_by": (n.split("-")[0] + " quick") if int(rc) == 1 and int(v) > 0 else ("NOT CAUGHT" if int(rc) == 0 else f"inconclusive (exit {rc})"),
            "sigs": "; ".join(f"`{s}`" for s in sigs[:3])}
json.dump(R, open("/verif/seeded/results.json", "w"), indent=1, sort_keys=True)
print(len(R), "seeds;", [k for k, v in R.items() if v["exit"] != 1])
