"""Build-time: print the markdown list of known findings for DESIGN.md section 10.5 from known_findings.json."""
import json, os
P = os.path.join(os.path.dirname(os.path.dirname(os.path.abspath(__file__))), "known_findings.json")
d = json.load(open(P))
print("| finding | keyed by | signature(s) | what fails |")
print("|---|---|---|---|")
c29 = [f for f in d["findings"] if f["property"] == "C29"]
for f in d["findings"]:
    if f["property"] == "C29":
        continue
    key = f"class `{f['class']}`" if "class" in f else f"{len(f.get('cases', []))} case ids"
    sigs = ", ".join(f["signature"][:3]) + (" …" if len(f["signature"]) > 3 else "")
    what = f["what"].replace("|", "/").replace("\n", " ")
    print(f"| {f['id']} | {key} | {sigs} | {what[:330]}{'…' if len(what) > 330 else ''} |")
if c29:
    n = sum(len(f["signature"]) for f in c29)
    print(f"| KF-C29-&lt;dialect&gt; ({len(c29)} entries) | dialect | {n} signatures `dangling_ref:<name>` / `unresolved…` | references reachable from the dialect's root segment that do not resolve (one signature per dangling name, so a new dangling name is still reported) |")
print()
for x in d.get("fixed", []):
    print("* `" + x.replace("`", "'") + "`")
