"""Build-time: find corpus inputs on which the linter's whole-file validation REJECTS a rule's fix
("Fixes for X not applied, as it would result in an unparsable file").  Those inputs are where the
_valid mechanism of C13 actually does work, so C13 always includes them (with fix_even_unparsable on and off)."""
import json, os, sys
sys.path.insert(0, os.path.dirname(os.path.dirname(os.path.abspath(__file__))))
from vfw.core import pool
from vfw.props import common
cases = []
for c in common.fx_cases(6000) + common.cx_cases(1, 4000) + common.rc_cases():
    c = dict(c); c["rules"] = "all"; c["scan"] = True
    cases.append(c)
out = []
for case, r in pool.run_cases("vfw.props.C13", cases, 1800):
    if (r.get("counters") or {}).get("fixes_rejected_by_validation"):
        out.append({k: case[k] for k in case if k not in ("scan",)})
json.dump(out, open(os.path.join(os.path.dirname(os.path.dirname(os.path.abspath(__file__))), "vfw", "gen", "validation_rejects.json"), "w"), indent=0)
print(len(out), "of", len(cases))
