"""Build-time: confirm a seeded change myself in a scratch worktree and record the result in its meta.json.
 (a) patch applies to /repo HEAD, (b) demo exits 1 with the patch, (c) demo exits 0 on /repo/src,
 (d) the test directories that exercise the touched files pass with the patch (known always-failing tests ignored)."""
import json, os, re, subprocess, sys, time
seed = sys.argv[1]
S = f"/verif/seeded/{seed}"
WT = f"/tmp/wt/verify_{seed}"
PY = "/venv/bin/python"
ALWAYS_FAIL = ("test__config__get_user_config_dir_path", "plugin_test.py", "diff_quality_plugin_test.py")
def sh(cmd, **kw):
    return subprocess.run(cmd, shell=True, capture_output=True, text=True, **kw)
res = {"at": time.strftime("%Y-%m-%d %H:%M:%S"), "repo_head": sh("git -C /repo log --format=%h -1").stdout.strip()}
sh(f"git -C /repo worktree remove --force {WT}")
assert sh(f"git -C /repo worktree add -q --detach {WT} HEAD").returncode == 0
try:
    r = sh(f"git -C {WT} apply {S}/patch.diff")
    res["patch_applies"] = r.returncode == 0
    if r.returncode == 0:
        files = [l[6:] for l in open(f"{S}/patch.diff") if l.startswith("+++ b/")]
        res["files"] = [f.strip() for f in files]
        d = sh(f"cd {S} && PYTHONPATH={WT}/src {PY} demo.py", timeout=1800)
        res["demo_with_patch_exit"] = d.returncode
        d0 = sh(f"cd {S} && PYTHONPATH=/repo/src {PY} demo.py", timeout=1800)
        res["demo_on_repo_exit"] = d0.returncode
        tests = set()
        for f in res["files"]:
            base = os.path.basename(f)
            m = re.match(r"dialect_([a-z0-9]+?)(_keywords)?\.py", base)
            if "/dialects/" in f and m:
                tests.add(f"test/dialects/dialects_test.py -k {m.group(1)}")
            if "/core/parser/" in f:
                tests |= {"test/core/parser", "test/dialects/dialects_test.py -k ansi"}
            m = re.match(r"([A-Z]{2}\d\d)\.py", base)
            if "/rules/" in f and m:
                tests.add(f"test/rules/yaml_test_cases_test.py -k {m.group(1)}")
            if "/utils/reflow/" in f:
                tests |= {"test/utils/reflow", "test/rules/yaml_test_cases_test.py -k LT0"}
            if "/core/rules/" in f:
                tests |= {"test/core/rules", "test/rules/yaml_test_cases_test.py -k AL0"}
            if "/core/linter/" in f or "/api/" in f or "/core/errors" in f:
                tests |= {"test/core/linter", "test/api", "test/core/errors_test.py"}
            if "/cli/" in f or "/core/linter/" in f:
                tests.add("test/cli/commands_test.py")
            if "/templaters/" in f:
                tests |= {"test/core/templaters"}
            if "/core/config/" in f or "/helpers/" in f:
                tests |= {"test/core/config", "test/core/helpers"}
        tests = sorted(tests) or ["test/core", "test/api", "test/cli"]
        failed, tails = [], []
        for tcmd in tests:
            t = sh(f"cd {WT} && PYTHONPATH={WT}/src {PY} -m pytest -q -p no:cacheprovider -n 4 --timeout=1800 {tcmd}", timeout=7200)
            tails.append(t.stdout.strip().splitlines()[-1] if t.stdout.strip() else "no output")
            failed += [l for l in t.stdout.splitlines() if l.startswith("FAILED") or l.startswith("ERROR")]
        tail = " | ".join(tails)
        unexpected = [l for l in failed if not any(a in l for a in ALWAYS_FAIL)]
        res["tests_run"] = "; ".join(tests)
        res["tests_summary"] = tail
        res["unexpected_test_failures"] = unexpected[:10]
        res["ok"] = bool(res["patch_applies"] and res["demo_with_patch_exit"] == 1 and res["demo_on_repo_exit"] == 0 and not unexpected and "passed" in tail)
    else:
        res["ok"] = False
finally:
    sh(f"git -C /repo worktree remove --force {WT}")
meta = json.load(open(f"{S}/meta.json"))
meta["verified_by_me"] = res
json.dump(meta, open(f"{S}/meta.json", "w"), indent=1)
print(seed, json.dumps(res)[:600])
