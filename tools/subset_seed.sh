#!/bin/sh
# development aid: run a subset of a check's thorough universe against a scratch worktree with a seeded patch applied
# usage: tools/subset_seed.sh <seed> <Cxx> <case-id-substring> [max]
S=/verif/seeded/$1; P=$2; SUB=$3; MAX=${4:-0}
WT=/tmp/wt/sub_$$
git -C /repo worktree add -q --detach $WT HEAD || exit 7
git -C $WT apply "$S/patch.diff" || { echo "patch does not apply"; git -C /repo worktree remove --force $WT; exit 8; }
cd /verif && VFW_SRC=$WT/src /venv/bin/python tools/run_subset.py $P "$SUB" $MAX /tmp/sub_$P.jsonl 2>&1 | tail -6 | cut -c1-300
git -C /repo worktree remove --force $WT
