"""Build-time helper (never used by checks): add/replace an entry in known_findings.json.

usage: kf.py add-cases <ID> <property> <what> <dump.jsonl> <sig>[,<sig>..] [--require-class C] [--exclude-class C]
       kf.py add-class <ID> <property> <what> <class> <sig>[,<sig>..]
       kf.py fixed <text>
"""
import json, sys, os
P = os.path.join(os.path.dirname(os.path.dirname(os.path.abspath(__file__))), "known_findings.json")
data = json.load(open(P)) if os.path.exists(P) else {"findings": [], "fixed": []}
cmd = sys.argv[1]
if cmd == "add-class":
    _, _, kid, prop, what, cls, sigs = sys.argv[:7]
    data["findings"] = [e for e in data["findings"] if e["id"] != kid]
    data["findings"].append({"id": kid, "property": prop, "what": what, "class": cls, "signature": sigs.split(",")})
elif cmd == "add-cases":
    _, _, kid, prop, what, dump, sigs = sys.argv[:7]
    sigs = sigs.split(",")
    req = sys.argv[sys.argv.index("--require-class") + 1] if "--require-class" in sys.argv else None
    exc = sys.argv[sys.argv.index("--exclude-class") + 1] if "--exclude-class" in sys.argv else None
    only_unknown = "--only-unknown" in sys.argv
    ids = []
    for l in open(dump):
        d = json.loads(l)
        if d["sig"] in sigs and (not req or req in d["classes"]) and (not exc or exc not in d["classes"]) and (not only_unknown or not d.get("known")):
            if d["id"] not in ids:
                ids.append(d["id"])
    old = [e for e in data["findings"] if e["id"] == kid]
    if old and "--merge" in sys.argv:
        ids = sorted(set(ids) | set(old[0].get("cases", [])))
    data["findings"] = [e for e in data["findings"] if e["id"] != kid]
    data["findings"].append({"id": kid, "property": prop, "what": what, "cases": sorted(ids), "signature": sigs})
    print(kid, len(ids), "cases")
elif cmd == "fixed":
    data.setdefault("fixed", []).append(sys.argv[2])
data["findings"].sort(key=lambda e: e["id"])
json.dump(data, open(P, "w"), indent=1)
