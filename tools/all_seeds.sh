#!/bin/sh
# development aid: run every kept seed against its property's check (quick tier) in a scratch worktree
OUT=${1:-/tmp/seedres.txt}; TIER=${2:-quick}
: > $OUT
for d in /verif/seeded/*/; do
  n=$(basename $d); p=$(echo $n | cut -d- -f1)
  [ -f $d/patch.diff ] || continue
  WT=/tmp/wt/seed_$n
  git -C /repo worktree add -q --detach $WT HEAD 2>/dev/null || { echo "$n worktree-failed" >> $OUT; continue; }
  if git -C $WT apply $d/patch.diff 2>/dev/null; then
    (cd /verif && VFW_SRC=$WT/src ./check $p --tier $TIER > /tmp/seed_$n.out 2>&1); rc=$?
    v=$(grep -c "^VIOLATION" /tmp/seed_$n.out)
    echo "$n rc=$rc violations=$v $(grep '^VIOLATION' /tmp/seed_$n.out | head -2 | sed 's/.*sig=/sig=/' | tr '\n' ' ')" >> $OUT
  else
    echo "$n patch-does-not-apply" >> $OUT
  fi
  git -C /repo worktree remove --force $WT
done
