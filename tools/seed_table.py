"""Build-time: print the markdown table of kept seeded changes for DESIGN.md from seeded/*/meta.json and seeded/results.json."""
import json, os, glob
R = json.load(open("/verif/seeded/results.json")) if os.path.exists("/verif/seeded/results.json") else {}
print("| seed | property | change (one line) | needs | caught by | first signature(s) |")
print("|---|---|---|---|---|---|")
for d in sorted(glob.glob("/verif/seeded/*/")):
    n = os.path.basename(d.rstrip("/"))
    if not os.path.exists(d + "meta.json"):
        continue
    m = json.load(open(d + "meta.json"))
    r = R.get(n, {})
    v = m.get("verified_by_me", {})
    print(f"| {n} | {m.get('property')} | {str(m.get('summary',''))[:150].replace('|','/')} | {str(m.get('needs',''))[:140].replace('|','/')} | {r.get('caught_by','?')} | {r.get('sigs','')} |")
