import sys, json
sys.path.insert(0, '/verif')
from vfw.props import common
from vfw.core import sf
from sqlfluff.core.parser.lexer import PyLexer
cid = sys.argv[1]
parts = cid.split(':')
if parts[0]=='jj': case={"kind":"jj","flavour":parts[1],"idx":int(parts[2]),"dialect":parts[3]}
elif parts[0]=='py': case={"kind":"py","lintable":bool(int(parts[1])),"idx":int(parts[2]),"dialect":"ansi"}
elif parts[0]=='ph': case={"kind":"ph","lintable":bool(int(parts[1])),"idx":int(parts[2]),"dialect":"ansi"}
r = common.resolve(case)
print(repr(r['source'])); print(r['features'])
lnt = sf.make_linter(r["dialect"], r["templater"], context=r["context"])
rendered = lnt.render_string(r["source"], "<string>", lnt.config.copy(), "utf8")
print("TMP:", rendered.templater_violations)
for vi, tf in enumerate(rendered.templated_variants):
    print("VARIANT", vi, repr(tf.templated_str))
    if len(sys.argv) > 2:
        for s in tf.sliced_file: print("   ", s, repr(tf.source_str[s.source_slice])[:50])
        segs, v = PyLexer(config=rendered.config).lex(tf)
        for t in segs: print("      ", type(t).__name__, repr(t.raw), t.pos_marker.source_slice, t.pos_marker.templated_slice, getattr(t,'block_type',''))
