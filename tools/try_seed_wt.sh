#!/bin/sh
# development aid: run a check against a scratch worktree with the seeded patch applied (does not touch /repo)
S=/verif/seeded/$1; P=$2; shift 2
WT=/tmp/wt/mut_$$
git -C /repo worktree add -q --detach $WT HEAD || exit 7
git -C $WT apply "$S/patch.diff" || { echo "patch does not apply"; git -C /repo worktree remove --force $WT; exit 8; }
cd /verif && VFW_SRC=$WT/src ./check "$P" "$@" > /tmp/try_$P.out 2>&1; rc=$?
git -C /repo worktree remove --force $WT
grep -c "^VIOLATION" /tmp/try_$P.out | sed "s/^/violations: /"; grep "^VIOLATION" /tmp/try_$P.out | head -4; tail -2 /tmp/try_$P.out | cut -c1-250; echo "exit=$rc"
