#!/bin/sh
# usage: tools/try_seed.sh <seed-dir-name> <property> [extra check args]  -- applies the seeded patch to /repo, runs the check, always reverts
S=/verif/seeded/$1; P=$2; shift 2
cd /repo && git diff --quiet || { echo "repo dirty"; exit 9; }
git -C /repo apply "$S/patch.diff" || { echo "patch does not apply"; exit 8; }
cd /verif && ./check "$P" "$@" > /tmp/try_$P.out 2>&1; rc=$?
git -C /repo checkout -- . 
grep -c "^VIOLATION" /tmp/try_$P.out | sed "s/^/violations: /"; grep "^VIOLATION" /tmp/try_$P.out | head -3; tail -2 /tmp/try_$P.out | cut -c1-250; echo "exit=$rc"
