#!/bin/sh
OUT=/tmp/seedmatrix.txt
for n in "$@"; do
  p=$(echo $n | cut -d- -f1); d=/verif/seeded/$n
  WT=/tmp/wt/seedm_$n
  git -C /repo worktree add -q --detach $WT HEAD 2>/dev/null || { echo "$n worktree-failed" >> $OUT; continue; }
  if git -C $WT apply $d/patch.diff 2>/dev/null; then
    s=$(date +%s)
    (cd /verif && VFW_JOBS=8 VFW_SRC=$WT/src ./check $p --tier quick > /tmp/seedm_$n.out 2>&1); rc=$?
    v=$(grep -c "^VIOLATION" /tmp/seedm_$n.out)
    echo "$n rc=$rc violations=$v $(( $(date +%s) - s ))s $(grep '^VIOLATION' /tmp/seedm_$n.out | sed 's/.*sig=/sig=/' | sort | uniq -c | sort -rn | head -3 | tr '\n' ';')" >> $OUT
  else echo "$n patch-does-not-apply" >> $OUT; fi
  git -C /repo worktree remove --force $WT
done
