"""development aid: run the cases of a property whose id contains a substring; prints failures.
usage: run_subset.py Cxx <substring> [max_cases]   (honours VFW_SRC)"""
import sys, json, collections, os
sys.path.insert(0, os.path.dirname(os.path.dirname(os.path.abspath(__file__))))
import importlib
from vfw.core import pool
from vfw.core.findings import Findings
prop, sub = sys.argv[1], sys.argv[2]
mx = int(sys.argv[3]) if len(sys.argv) > 3 else 0
dump = open(sys.argv[4], "w") if len(sys.argv) > 4 else None
m = importlib.import_module(f"vfw.props.{prop}")
cs = [c for c in m.cases("thorough", 0) if sub in c["id"]]
if mx: cs = cs[:mx]
kf = Findings.load(prop)
c = collections.Counter(); n = 0
for case, r in pool.run_cases(f"vfw.props.{prop}", cs, 1800):
    c[r.get("status")] += 1
    for f in r.get("failures") or []:
        k = kf.match(case, f, r.get("classes") or [])
        if dump:
            dump.write(json.dumps({"id": case["id"], "sig": f["sig"], "classes": r.get("classes") or [], "known": k, "detail": f.get("detail")}, default=repr) + "\n")
        if not k:
            n += 1
            if n <= 12: print(case["id"], f["sig"], json.dumps(f["detail"])[:300])
print(dict(c), "unknown failures:", n, "of", len(cs))
