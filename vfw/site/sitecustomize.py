"""Activated only when SQLFLUFF_VERIF=1 and VP_MONITORS is set: installs the
M-RUNNER monitor inside CLI processes and their spawn-context pool workers.

The wrapper keeps the wrapped function's module/qualname, so the parent can
pickle ``ParallelRunner._apply`` by reference and every worker resolves the
name to its *own* wrapper (installed by this same file at interpreter start).
"""

import os

if os.environ.get("SQLFLUFF_VERIF") == "1" and os.environ.get("VP_MONITORS"):
    try:
        import functools
        import hashlib
        import json
        import time

        from sqlfluff.core.linter import runner as _runner

        _mon = set(os.environ["VP_MONITORS"].split(","))
        _evdir = os.environ.get("VP_EVENT_DIR")
        _sched = os.environ.get("VP_DELAY_SCHEDULE", "0")
        _maxms = int(os.environ.get("VP_DELAY_MAX_MS", "300"))

        def _log(rec):
            if _evdir:
                with open(os.path.join(_evdir, f"{os.getpid()}.jsonl"), "a") as f:
                    f.write(json.dumps(rec) + "\n")

        if "runner" in _mon:
            _orig = _runner.ParallelRunner.__dict__["_apply"].__func__

            @functools.wraps(_orig)
            def _apply(partial_tuple):
                fname = partial_tuple[0]
                h = hashlib.sha1(f"{_sched}|{os.path.basename(fname)}".encode()).digest()
                delay = (int.from_bytes(h[:4], "big") % (_maxms + 1)) / 1000.0 if _sched != "none" else 0.0
                t0 = time.monotonic_ns()
                time.sleep(delay)
                res = _orig(partial_tuple)
                _log({"ev": "apply", "fname": fname, "pid": os.getpid(), "start": t0, "end": time.monotonic_ns(), "delay_ms": int(delay * 1000)})
                return res

            _runner.ParallelRunner._apply = staticmethod(_apply)
            _log({"ev": "installed", "pid": os.getpid()})
    except Exception as _e:  # never break the process under test
        try:
            if os.environ.get("VP_EVENT_DIR"):
                with open(os.path.join(os.environ["VP_EVENT_DIR"], f"{os.getpid()}.err"), "a") as f:
                    f.write(repr(_e) + "\n")
        except Exception:
            pass
