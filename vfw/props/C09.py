"""C09 — python-format and placeholder templaters render faithfully (reference models)."""

from vfw.core import sf
from vfw.gen.corpus import stratified_sample
from vfw.models import tmpl_ref
from vfw.props import common

PROPERTY = "C09"
LEVEL = "exploration"
RULE = (
    "case = generated python format string (literal text, {{ }}, plain/dotted fields, conversions, format specs, nested specs, positional, missing keys) with a fixed "
    "context, or generated SQL in each of the 12 placeholder styles with look-alikes and configured/missing values; reference models: a string.Formatter subclass that "
    "resolves dotted names in ctx['sqlfluff'], and a finditer splice over a literal snapshot of the documented style regexes; observed = templated_str of Linter.render_string; "
    "python cases are decided only when the model renders (valid format string) - then sqlfluff must render the same text with no TMP; distinct = source hash"
)
ASSUMPTIONS = ["the placeholder style table in the model is a literal snapshot of the documented regexes"]
TIMEOUT = {"quick": 300, "thorough": 600}
MIN_NONTRIVIAL = {"quick": 300, "thorough": 2000}
REQUIRED_COUNTERS = ["compared"]


def universe():
    return common.py_cases(3000) + common.py_cases(800, True) + common.py2_cases(800) + common.ph_cases(3000) + common.ph_cases(800, True)


def cases(tier, seed):
    return stratified_sample(universe(), lambda c: c["stratum"], 3000 if tier == "quick" else 0, seed)


# Literal snapshot of the documented dot-notation rewrite ("{foo.bar} => {sqlfluff[foo.bar]}").  A case is in
# class py.dot_notation_regex iff THIS rewrite, applied to the source text, already fails to reproduce
# str.format semantics - a property of the input alone, so it identifies the listed defect by mechanism
# and any other python-templater failure (or a changed rewrite) is still reported.
DOT_RX = r"{([^:}]*\.[^:}]*)(:\S*)?}"


def dot_regex_explains(source, ctx, ref):
    import re

    try:
        return re.sub(DOT_RX, r"{sqlfluff[\1]\2}", source).format(**ctx) != ref
    except Exception:
        return True


def run_case(case):
    r = common.resolve(case)
    src = r["source"]
    counters = {}
    classes = set()
    if case["kind"] in ("py", "py2"):
        try:
            ref = tmpl_ref.pyfmt_render(src, r["context"])
        except Exception:
            return {"status": "skip", "counters": {"model_invalid": 1}}
        if dot_regex_explains(src, r["context"], ref):
            classes.add("py.dot_notation_regex")
    else:
        ref, params = tmpl_ref.placeholder_render(src, r["style"], r["values"])
        counters["params_matched"] = len(params)
    lnt = sf.make_linter(r["dialect"], r["templater"], context=r["context"])
    fails = []
    try:
        rendered = lnt.render_string(src, "<string>", lnt.config.copy(), "utf8")
    except Exception as e:
        fails.append({"sig": f"valid_source_raised:{type(e).__name__}", "detail": {"err": repr(e)[:200], "source": src[:200]}})
        rendered = None
    if rendered is not None:
        if rendered.templater_violations:
            fails.append({"sig": "valid_source_reported_TMP", "detail": {"tmp": [str(v.desc())[:150] for v in rendered.templater_violations[:2]], "source": src[:200], "model": ref[:200]}})
        elif not rendered.templated_variants:
            fails.append({"sig": "valid_source_no_variant", "detail": {"source": src[:200]}})
        else:
            got = rendered.templated_variants[0].templated_str
            counters["compared"] = 1
            if got != ref:
                fails.append({"sig": "render_mismatch", "detail": {"sqlfluff": got[:200], "model": ref[:200], "source": src[:200]}})
    res = {
        "status": "fail" if fails else "pass",
        "failures": fails,
        "counters": counters,
        "classes": sorted(classes),
        "key": common.short_hash(r["templater"] + src + repr(r.get("values"))),
    }
    if len(src) < 120:
        res["sample"] = {"source": src, "templater": r["templater"], "model_render": ref[:160], "style": r.get("style")}
    return res
