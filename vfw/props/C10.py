"""C10 — Fixes never edit template code."""

import os

from vfw.gen import corpus
from vfw.gen.corpus import stratified_sample
from vfw.models import tmplcode
from vfw.props import common, fixcase

PROPERTY = "C10"
LEVEL = "exploration"
RULE = (
    "case = generated lintable Jinja / python-format / placeholder template (plus hand-written sources that END in a template expression / parameter without a trailing newline) x rule selection {all, format, all minus JJ01} x "
    "render_variant_limit {1, default}; the real fix is run (Linter.lint_string(fix=True) + fix_string) and the template-code sequence of the source before and after is "
    "extracted independently (Jinja's own lexer; string.Formatter.parse; the style regex) and compared (texts and order; padding inside the delimiters normalised only when "
    "JJ01 is enabled); distinct = source hash + rule set; non-trivial = fix changed the source text and the source contains at least one template element"
)
ASSUMPTIONS = ["tag text is taken strictly from opening to closing delimiter (whitespace Jinja's lexer folds into a trimmed tag is not template code)"]
TIMEOUT = {"quick": 400, "thorough": 900}
MIN_NONTRIVIAL = {"quick": 40, "thorough": 500}
REQUIRED_COUNTERS = ["tag_sequences_compared", "files_changed_by_fix"]
FOUR = ("ansi", "postgres", "tsql", "bigquery")
RS = {"all": None, "format": fixcase.FORMAT_RULES, "nojj": None}


def universe():
    u = []
    base = common.jj_cases(2400, "lintable", FOUR) + common.py_cases(500, True) + common.ph_cases(600, True)
    for i, c in enumerate(base):
        rs = ("all", "format", "nojj")[i % 3]
        c = dict(c)
        c["rules"] = rs if rs != "nojj" else "all"
        if rs == "nojj":
            c["core"] = {"exclude_rules": "JJ01"}
        if c["kind"] == "jj" and i % 4 == 3:
            c.setdefault("core", {})
            c["core"] = dict(c["core"], render_variant_limit=1)
            c["id"] += "|rvl=1"
        c["id"] += f"|rules={rs}"
        c["rsname"] = rs
        c["stratum"] += f"|{rs}"
        u.append(c)
    return u


TAILS = [
    ("jinja", "SELECT a FROM t AS {{ v1 }}"), ("jinja", "SELECT a,b FROM tbl {{ v1 }}"), ("jinja", "select a from t where b = {{ v2 }}"), ("jinja", "SELECT a FROM t AS x ORDER BY {{ v2 }}"),
    ("jinja", "select a from {{ v1 }} AS {{ v1 }}"), ("jinja", "SELECT a FROM t AS {{ v1 }}  "), ("jinja", "SELECT a FROM t AS {{ v1 }}{# c #}"), ("jinja", "{{ v1 }}"),
    ("jinja", "SELECT a FROM t {% if flag_t %}AS x{% endif %}"), ("jinja", "SELECT a FROM t AS {{ v1 }}\n"),
    ("placeholder", "SELECT a FROM t AS :al"), ("placeholder", "select a,b from t where c = :name"), ("placeholder", "SELECT a FROM t AS x LIMIT :p1"), ("placeholder", "SELECT a FROM :tbl :al"),
    ("python", "SELECT a FROM t AS {tbl}"), ("python", "select a,b from {tbl} {col}"),
]


def tail_cases():
    """sources that END in a template expression / parameter (no trailing newline): the last raw slice is templated"""
    from vfw.gen import jinja_gen, tmpl_gen

    out = []
    for i, (t, src) in enumerate(TAILS):
        for rs in ("all", "format"):
            ctx = dict(jinja_gen.CONTEXT) if t == "jinja" else (dict(tmpl_gen.PY_CONTEXT) if t == "python" else {"param_style": "colon", "name": "1"})
            c = {"id": f"tail:{i}|rules={rs}", "kind": "lit", "source": src, "dialect": "ansi", "templater": t, "context": ctx, "rules": rs, "rsname": rs, "stratum": "tail"}
            if t == "placeholder":
                c["style"] = "colon"
            out.append(c)
    return out


def cases(tier, seed):
    if tier == "quick":
        return stratified_sample(universe(), lambda c: c["stratum"], 300, seed) + tail_cases()
    return universe() + tail_cases()


def extract(r, text, jj01):
    t = r["templater"]
    if t == "jinja":
        return tmplcode.jinja_tags(text, normalise_padding=jj01)
    if t == "python":
        return tmplcode.python_fields(text)
    if t == "placeholder":
        return tmplcode.placeholder_params(text, r.get("style") or "colon")
    return []


def run_case(case):
    r, lnt, obs = fixcase.observe(case)
    if lnt is None:
        return {"status": "harness_error", "detail": obs}
    if "raised" in obs or "fix_string_raised" in obs:
        return {"status": "skip", "counters": {"lint_raised": 1}}
    src = r["source"].replace("\r\n", "\n").replace("\r", "\n")
    fixed = obs["fixed"]
    jj01 = case.get("rsname") != "nojj"
    before = extract(r, src, jj01)
    after = extract(r, fixed, jj01)
    if before is None:
        return {"status": "skip", "counters": {"source_not_lexable_by_reference": 1}}
    classes = set()
    feats = set(r.get("features") or [])
    if "conditional" in feats:
        classes.add("jinja.conditional")
    if "for_else" in feats:
        classes.add("jinja.for_else")
    fails = []
    if after is None:
        fails.append({"sig": "fixed_source_not_lexable_as_template", "detail": {"source": src[:300], "fixed": fixed[:300]}})
    elif before != after:
        i = 0
        while i < min(len(before), len(after)) and before[i] == after[i]:
            i += 1
        kind = "template_code_changed"
        if len(after) < len(before):
            kind = "template_code_removed"
        elif len(after) > len(before):
            kind = "template_code_added"
        fails.append({"sig": kind, "detail": {"index": i, "before": before[i : i + 2], "after": after[i : i + 2], "source": src[:400], "fixed": fixed[:400]}})
    changed = bool(obs.get("changed"))
    return {
        "status": "fail" if fails else "pass",
        "failures": fails,
        "classes": sorted(classes),
        "counters": {"tag_sequences_compared": 1, "template_elements": len(before), "files_changed_by_fix": int(changed)},
        "key": common.text_key(r) + case.get("rsname", "") if changed and before else None,
        "sample": {"source": src[:200], "fixed": fixed[:200], "tags": before[:6], "rules": case.get("rsname")} if changed and len(src) < 200 else None,
    }
