"""C13 — Fixing never makes a parsable file unparsable."""

from vfw.gen.corpus import stratified_sample
from vfw.props import fixcase, fixprops

PROPERTY = "C13"
LEVEL = "exploration"
RULE = (
    "case = (sql, dialect, rule selection) from dialect fixtures <= 3 kB under all rules (every 2nd also under the exact 'sqlfluff format' rule list), seeded mutants and comment-injected variants of every 2nd fixture, fix_even_unparsable variants, a quoting sweep and a line-width sweep, "
    "the repo's rule yaml examples (with their own configs) under all rules, lintable Jinja templates, and every corpus input on which whole-file validation is known to reject some rule's fix (with fix_even_unparsable off and on); run through the real Linter.lint_string(fix=True); "
    "precondition: source has zero TMP/LXR/PRS; oracle: the fixed text, linted again with the same config, has zero TMP/LXR/PRS and the fixed tree holds no unparsable node; distinct = content hash + rule set; non-trivial = the fix actually changed the text"
)
ASSUMPTIONS = ["API route (Linter.lint_string + LintedFile.fix_string); the CLI route is compared with it in C19"]
TIMEOUT = {"quick": 400, "thorough": 900}
MIN_NONTRIVIAL = {"quick": 30, "thorough": 600}
REQUIRED_COUNTERS = ["reparsed_fixed_texts", "files_changed_by_fix"]


def rejects():
    """Inputs on which (on the tree the list was built from) whole-file validation rejected some rule's fix:
    the cases where the validation mechanism this property is anchored in actually decides the outcome."""
    import json
    import os

    p = os.path.join(os.path.dirname(os.path.dirname(__file__)), "gen", "validation_rejects.json")
    if not os.path.exists(p):
        return []
    out = []
    for c in json.load(open(p)):
        for feu in (False, True):
            d = dict(c)
            d["id"] = "rej:" + c["id"] + ("|feu" if feu else "") + "|rules=all"
            d["stratum"] = "rej"
            if feu:
                d["core"] = {"fix_even_unparsable": True}
            out.append(d)
    return out


def universe():
    return fixcase.base_universe(fx_bytes=3000, mx=1, rulesets=("all", "format"), rc_rulesets=("all",), jj=160) + rejects()


def cases(tier, seed):
    u = universe()
    if tier != "quick":
        return u
    # quick: stratified sample + the whole (cheap) width sweep
    always = [c for c in u if c["id"].startswith(("ws:", "qs:", "rej:"))]
    return stratified_sample([c for c in u if not c["id"].startswith(("ws:", "qs:", "rej:"))], lambda c: c.get("stratum", ""), 240, seed) + always


def run_case(case):
    return fixprops.c13(case)
