"""Shared parse-level workload for C02 / C03: run the real Linter.parse_string
under the M-TREE recorder and apply the structural oracles."""

from __future__ import annotations

from vfw.core import sf
from vfw.monitors import hooks, structure
from vfw.props import common

_REC = None


def recorder():
    global _REC
    if _REC is None:
        _REC = hooks.Recorder().install(tf=False, lex=True, parse=True)
    return _REC


def run(case, which: str):
    rec = recorder()
    rec.reset()
    r = common.resolve(case)
    core = case.get("core") or None
    lnt = sf.make_linter(r["dialect"], r["templater"], context=r["context"], core=core)
    counters = {}
    try:
        parsed = lnt.parse_string(r["source"], fname="<string>")
    except Exception as e:
        return {"status": "skip", "counters": {"parse_string_raised": 1}, "detail": repr(e)[:300]}
    fails = []
    nleaves = 0
    # pair parse events (tokens handed to Parser.parse) with the variants
    events = list(rec.parse_events)
    counters["parse_calls"] = len(events)
    variants = [v for v in parsed.parsed_variants]
    # variants whose lexing produced tokens got exactly one parse call, in order
    ei = 0
    classes = set()
    for vi, v in enumerate(variants):
        try:
            if r["templater"] != "raw" and structure.ws_run_spans_slice_boundary(v.templated_file):
                classes.add("ws_run_spans_template_slice")
        except Exception:
            pass
        pre = "alt:" if vi else ""
        tokens = None
        if ei < len(events):
            tokens, tree_ev, exc = events[ei]
            ei += 1
        if which == "C02":
            if tokens is None:
                continue
            if v.tree is None and exc is None and tree_ev is not None:
                fails.append({"sig": pre + "tree_dropped_after_parse", "detail": {}})
            for f in structure.check_tree_lossless(tokens, v.tree, v.parsing_violations, counters):
                f["sig"] = pre + f["sig"]
                fails.append(f)
            if v.tree is not None:
                nleaves += len(v.tree.raw_segments)
        else:
            if v.tree is None:
                counters["no_tree"] = counters.get("no_tree", 0) + 1
                continue
            # template-block indents are filtered when unbalanced at lex time;
            # the balance clause applies to whatever reaches the tree
            for f in structure.check_tree_wellformed(v.tree, counters):
                f["sig"] = pre + f["sig"]
                fails.append(f)
            nleaves += len(v.tree.raw_segments)
    seen, uniq = set(), []
    for f in fails:
        if f["sig"] not in seen:
            seen.add(f["sig"])
            uniq.append(f)
    res = {
        "status": "fail" if uniq else "pass",
        "failures": uniq,
        "counters": counters,
        "classes": sorted(classes),
        "key": common.text_key(r) if nleaves >= 3 else None,
    }
    if case["kind"] in ("mx", "jj") and nleaves:
        res["sample"] = {"source": r["source"][:240], "dialect": r["dialect"], "templater": r["templater"], "leaves": nleaves, "variants": len(variants),
                         "unparsable_nodes": counters.get("unparsable_nodes", 0)}
    return res
