"""C30 — Edits are applied to disjoint source ranges exactly once."""

import itertools

from vfw.gen.corpus import stratified_sample
from vfw.monitors import hooks
from vfw.props import common, fixcase

PROPERTY = "C30"
LEVEL = "exploration"
RULE = (
    "(a) exhaustive small scope: source 'abcdefgh'; every set of <= 3 patches with 0 <= start <= stop <= 8 and replacement text in {'X','YZ'} (121 575 sets), each fed as one buffer and as two "
    "variant buffers to the real merge_source_patches -> _slice_source_file_using_patches -> _build_up_fixed_source_string; oracle: merged patches pairwise non-conflicting and each an input, every dropped "
    "input is a duplicate or conflicts with a kept one, slice buffer tiles [0,len), output == independent splice of exactly the kept patches; (b) observed real histories: lintable Jinja/placeholder/python "
    "templates fixed with all rules, a wrapper records what merge_source_patches received/returned and the same oracle is applied to the real fix_string output; distinct = patch-set / source hash; "
    "non-trivial = at least two patches in the set"
)
ASSUMPTIONS = ["two zero-length insertions at the same offset conflict; an insertion at the edge of a replacement does not (as _patches_conflict defines)"]
TIMEOUT = {"quick": 400, "thorough": 900}
MIN_NONTRIVIAL = {"quick": 100, "thorough": 1000}
REQUIRED_COUNTERS = ["patch_sets_checked"]
EXHAUSTIVE = {"thorough": True}
SRC = "abcdefgh"
FOUR = ("ansi", "postgres", "tsql", "bigquery")


def patch_values():
    out = []
    for a in range(len(SRC) + 1):
        for b in range(a, len(SRC) + 1):
            for t in ("X", "YZ"):
                out.append((a, b, t))
    return out


def cases(tier, seed):
    pv = patch_values()
    unit = [{"id": f"ps:{i}", "kind": "unit", "first": i, "stratum": "unit"} for i in range(len(pv))]
    real = []
    for c in common.jj_cases(900, "lintable", FOUR) + common.ph_cases(200, True) + common.py_cases(150, True):
        c = dict(c)
        c["rules"] = "all"
        c["id"] = "real:" + c["id"]
        c["stratum"] = "real:" + c["kind"]
        c["mode"] = "real"
        real.append(c)
    if tier == "quick":
        return stratified_sample(unit, lambda c: c["stratum"], 24, seed) + stratified_sample(real, lambda c: c["stratum"], 160, seed)
    return unit + real


def conflict(p, q):
    (a1, b1, t1), (a2, b2, t2) = p, q
    if (a1, b1) == (a2, b2):
        return t1 != t2
    if a1 == b1 == a2 == b2:
        return a1 == a2
    return max(a1, a2) < min(b1, b2)


def splice(source, patches):
    out = []
    pos = 0
    for a, b, t in sorted(patches, key=lambda p: (p[0], p[1])):
        if a < pos:
            return None  # overlapping: not spliceable
        out.append(source[pos:a])
        out.append(t)
        pos = b
    out.append(source[pos:])
    return "".join(out)


def check_set(source, buffers, merged, slices, output):
    """Oracle over one merge + apply.  All patches as (start, stop, text)."""
    inputs = [p for buf in buffers for p in buf]
    fails = []
    for m in merged:
        if m not in inputs:
            return [{"sig": "merged_patch_not_an_input", "detail": {"patch": m}}]
    for i, p in enumerate(merged):
        for q in merged[i + 1 :]:
            if p == q:
                return [{"sig": "patch_kept_twice", "detail": {"patch": p}}]
            if conflict(p, q):
                return [{"sig": "conflicting_patches_both_kept", "detail": {"p": p, "q": q}}]
    kept = set(merged)
    for p in inputs:
        if p not in kept and not any(conflict(p, k) for k in merged):
            return [{"sig": "non_conflicting_patch_dropped", "detail": {"patch": p, "kept": merged}}]
    if slices is not None:
        pos = 0
        for s in slices:
            if s.start != pos and not (s.start == s.stop and s.start <= pos):
                return [{"sig": "slice_buffer_not_tiling", "detail": {"slices": [(x.start, x.stop) for x in slices], "at": pos}}]
            pos = max(pos, s.stop)
        if pos != len(source):
            return [{"sig": "slice_buffer_not_tiling", "detail": {"slices": [(x.start, x.stop) for x in slices], "end": pos}}]
    want = splice(source, merged)
    if want is not None and output != want:
        return [{"sig": "output_ne_splice_of_kept_patches", "detail": {"kept": merged, "output": output[:200], "want": want[:200], "inputs": inputs[:6]}}]
    return fails


def run_unit(case):
    from sqlfluff.core.linter.linted_file import LintedFile
    from sqlfluff.core.linter.patch import FixPatch, merge_source_patches

    pv = patch_values()
    first = pv[case["first"]]
    rest = pv[case["first"] + 1 :]

    def mk(p):
        a, b, t = p
        return FixPatch(slice(a, b), t, "verif", slice(a, b), SRC[a:b], SRC[a:b])

    def sets():
        yield (first,)
        for q in rest:
            yield (first, q)
        for q, r in itertools.combinations(rest, 2):
            yield (first, q, r)

    n = 0
    fails = []
    for ps in sets():
        layouts = [[list(ps)]]
        if len(ps) > 1:
            layouts.append([list(ps[:1]), list(reversed(ps[1:]))])
        for buffers in layouts:
            n += 1
            merged = merge_source_patches([[mk(p) for p in buf] for buf in buffers])
            mt = [(m.source_slice.start, m.source_slice.stop, m.fixed_raw) for m in merged]
            slices = LintedFile._slice_source_file_using_patches(list(merged), [], SRC)
            out = LintedFile._build_up_fixed_source_string(slices, list(merged), SRC)
            f = check_set(SRC, buffers, mt, slices, out)
            if f:
                f[0]["detail"]["buffers"] = buffers
                fails = f
                break
        if fails:
            break
    return {"status": "fail" if fails else "pass", "failures": fails, "counters": {"patch_sets_checked": n}, "key": case["id"], "sample": {"first_patch": first, "sets": n} if case["first"] % 30 == 0 else None}


_rec = {"installed": False, "events": []}


def install():
    if _rec["installed"]:
        return
    from sqlfluff.core.linter import linter as linter_mod
    from sqlfluff.core.linter import patch as patch_mod

    def mk(orig):
        def merge_source_patches(patch_buffers):
            res = orig(patch_buffers)
            _rec["events"].append(([list(b) for b in patch_buffers], list(res)))
            return res

        return merge_source_patches

    hooks.wrap(patch_mod, "merge_source_patches", mk)
    _rec["installed"] = True


def run_real(case):
    install()
    del _rec["events"][:]
    r, lnt, obs = fixcase.observe(case)
    if lnt is None:
        return {"status": "harness_error", "detail": obs}
    if "raised" in obs or "fix_string_raised" in obs:
        return {"status": "skip", "counters": {"lint_raised": 1}}
    if not _rec["events"]:
        return {"status": "skip", "counters": {"no_merge_event": 1}}
    buffers, merged = _rec["events"][-1]
    t = lambda p: (p.source_slice.start, p.source_slice.stop, p.fixed_raw)
    src = obs["linted"].templated_file.source_str
    bt = [[t(p) for p in b] for b in buffers]
    mt = [t(p) for p in merged]
    so = [(s.source_idx, s.source_idx + len(s.raw)) for s in obs["linted"].templated_file.source_only_slices()]
    fails = check_set(src, bt, mt, None, obs["fixed"])
    # a kept patch must never overlap a source-only (template tag) region unless it replaces exactly that region
    for a, b, _ in mt:
        for sa, sb in so:
            if max(a, sa) < min(b, sb) and (a, b) != (sa, sb):
                fails = fails or [{"sig": "patch_overlaps_template_tag", "detail": {"patch": (a, b), "tag": (sa, sb), "tag_text": src[sa:sb][:60]}}]
    return {
        "status": "fail" if fails else "pass",
        "failures": fails[:1],
        "counters": {"patch_sets_checked": 1, "real_patch_sets": 1, "real_patches": len(mt), "real_variant_buffers": len(bt)},
        "key": common.text_key(r) if len(mt) >= 2 else None,
        "sample": {"source": src[:160], "patches": mt[:6], "buffers": len(bt)} if len(src) < 160 and mt else None,
    }


def run_case(case):
    return run_unit(case) if case["kind"] == "unit" else run_real(case)
