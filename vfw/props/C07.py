"""C07 — Template source maps are consistent for every templater and variant (M-TF)."""

import os

from vfw.core import sf
from vfw.gen import corpus
from vfw.gen.corpus import stratified_sample
from vfw.monitors import hooks, structure
from vfw.props import common

PROPERTY = "C07"
LEVEL = "exploration"
RULE = (
    "case = one template (generated Jinja hostile/lintable, python-format, placeholder in each of the 12 styles, or one of the repo's templater fixture files "
    "with its own config); the real templater is run through Linter.render_string and a wrapper on TemplatedFile.__init__ checks the ARGUMENTS of every "
    "construction (primary and alternate variants): raw slices tile the source with matching text, rendered slices tile the rendered text from 0 to len, "
    "source slices in bounds, literal slices with non-empty rendering map to identical source text; a constructor that raises (file silently skipped) is recorded as a "
    "violation; distinct = source content hash; non-trivial = at least one sliced (templated) TemplatedFile was constructed"
)
ASSUMPTIONS = ["TemplatedFile constructions with sliced_file=None (untemplated) are trivially consistent", "event 0 of a render is the primary variant, later events alternates"]
TIMEOUT = {"quick": 300, "thorough": 600}
MIN_NONTRIVIAL = {"quick": 300, "thorough": 3000}
REQUIRED_COUNTERS = ["tf_checked"]
FOUR = ("ansi", "postgres", "tsql", "bigquery")
_REC = None


def tfx_cases():
    root = os.path.join(corpus.FIX_ROOT, "templater")
    out = []
    for d in sorted(os.listdir(root)):
        p = os.path.join(root, d)
        if not os.path.isdir(p):
            continue
        for dp, _, fns in sorted(os.walk(p)):
            for f in sorted(fns):
                if f.endswith(".sql") and "macros" not in dp:
                    rel = os.path.relpath(os.path.join(dp, f), corpus.FIX_ROOT)
                    out.append({"id": f"tfx:{rel}", "kind": "tfx", "path": rel, "stratum": "tfx"})
    return out


def universe():
    u = common.jj_cases(6000, "hostile", FOUR) + common.jj_cases(3000, "lintable", FOUR) + common.jj_cases(900, "guarded", ("ansi",))
    u += common.py_cases(1500) + common.py_cases(500, True) + common.py2_cases(600) + common.ph_cases(1500) + common.ph_cases(600, True)
    u += tfx_cases()
    return u


def cases(tier, seed):
    return stratified_sample(universe(), lambda c: c["stratum"], 3000 if tier == "quick" else 0, seed)


def render(case):
    """Returns (r, rendered or None, error)."""
    from sqlfluff.core import FluffConfig, Linter

    if case["kind"] == "tfx":
        path = os.path.join(corpus.FIX_ROOT, case["path"])
        with open(path, encoding="utf-8") as f:
            src = f.read()
        cwd = os.getcwd()
        os.chdir(corpus.REPO)
        try:
            cfg = FluffConfig.from_path(os.path.relpath(path, corpus.REPO), overrides={"dialect": "ansi"})
            lnt = Linter(config=cfg)
            r = {"source": src, "dialect": "ansi", "templater": cfg.get("templater"), "features": ["repo_fixture"], "context": None}
            try:
                return r, lnt.render_string(src, os.path.relpath(path, corpus.REPO), cfg.copy(), "utf8"), None
            except Exception as e:
                return r, None, e
        finally:
            os.chdir(cwd)
    r = common.resolve(case)
    lnt = sf.make_linter(r["dialect"], r["templater"], context=r["context"], core=case.get("core"))
    try:
        return r, lnt.render_string(r["source"], "<string>", lnt.config.copy(), "utf8"), None
    except Exception as e:
        return r, None, e


def classes_of(r):
    f = set(r.get("features") or [])
    out = set()
    if "for_else" in f:
        out.add("jinja.for_else")
    if "conditional" in f or "repo_fixture" in f:
        out.add("jinja.conditional")
    return out


def run_case(case):
    global _REC
    if _REC is None:
        _REC = hooks.Recorder().install(tf=True, lex=False, parse=False)
    _REC.reset()
    r, rendered, err = render(case)
    counters = {"tf_constructed": len(_REC.tf_events)}
    fails = []
    sliced = 0
    for i, ev in enumerate(_REC.tf_events):
        pre = "alt:" if i else ""
        if ev["sliced_file"] is not None:
            sliced += 1
        counters["tf_checked"] = counters.get("tf_checked", 0) + 1
        for f in structure.check_templated_file(ev["source_str"], ev["templated_str"], ev["sliced_file"], ev["raw_sliced"]):
            f["sig"] = pre + f["sig"]
            f["detail"]["event"] = i
            fails.append(f)
        if ev["raised"]:
            kind = ev["raised"].split(":")[0]
            fails.append({"sig": pre + f"constructor_raised:{kind}", "detail": {"msg": ev["raised"], "event": i}})
    seen, uniq = set(), []
    for f in fails:
        if f["sig"] not in seen:
            seen.add(f["sig"])
            uniq.append(f)
    if err is not None:
        counters["render_raised"] = 1
    res = {
        "status": "fail" if uniq else ("pass" if counters.get("tf_checked") else "skip"),
        "failures": uniq,
        "counters": counters,
        "classes": sorted(classes_of(r)),
        "key": common.short_hash(r["source"]) if sliced else None,
    }
    if sliced and len(r["source"]) < 200:
        res["sample"] = {"source": r["source"], "templater": r["templater"], "tf_constructed": len(_REC.tf_events), "features": r.get("features")}
    return res
