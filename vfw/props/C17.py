"""C17 — Fix and format are idempotent."""

from vfw.gen.corpus import stratified_sample
from vfw.props import fixcase, fixprops

PROPERTY = "C17"
LEVEL = "exploration"
RULE = (
    "case = (sql, dialect, rule selection) from dialect fixtures <= 3 kB under all rules (every 2nd also under the exact 'sqlfluff format' rule list), seeded mutants and comment-injected variants of every 2nd fixture, fix_even_unparsable variants, a quoting sweep and a line-width sweep, "
    "the repo's rule yaml examples (with their own configs) under all rules, and lintable Jinja templates; run through the real Linter.lint_string(fix=True); "
    "oracle: fix(fix(x)) == fix(x) textually with the same config (format rule set, and all rules); distinct = content hash + rule set; non-trivial = the fix actually changed the text"
)
ASSUMPTIONS = ["API route (Linter.lint_string + LintedFile.fix_string); the CLI route is compared with it in C19"]
TIMEOUT = {"quick": 400, "thorough": 900}
MIN_NONTRIVIAL = {"quick": 30, "thorough": 600}
REQUIRED_COUNTERS = ["second_passes", "files_changed_by_fix"]


def universe():
    return fixcase.base_universe(fx_bytes=3000, mx=1, rulesets=("all", "format"), rc_rulesets=("all",), jj=160)


def cases(tier, seed):
    u = universe()
    if tier != "quick":
        return u
    # quick: stratified sample + the whole (cheap) width sweep
    return stratified_sample([c for c in u if not c["id"].startswith(("ws:", "qs:"))], lambda c: c.get("stratum", ""), 240, seed) + [c for c in u if c["id"].startswith(("ws:", "qs:"))]


def run_case(case):
    return fixprops.c17(case)
