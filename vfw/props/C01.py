"""C01 — Lexing is lossless, ordered and total (M-LEX on every lex() return)."""

from __future__ import annotations

from vfw.core import sf
from vfw.gen.corpus import DIALECTS, stratified_sample
from vfw.monitors import structure
from vfw.props import common

PROPERTY = "C01"
LEVEL = "exploration"
RULE = (
    "case = (input text, dialect, templater) drawn from: 451 hostile strings x 28 dialects, every dialect fixture, "
    "seeded mutants of fixtures, generated Jinja / python-format / placeholder templates (all rendering variants lexed); "
    "distinct = distinct (dialect, templater, source) content hash; non-trivial = lexer returned >= 2 tokens and the M-LEX oracle ran on it"
)
ASSUMPTIONS = [
    "PyLexer is the lexer under test (sqlfluffrs is not installed in this image)",
    "source positions may go backwards only directly after a TemplateLoop marker emitted by the lexer",
]
TIMEOUT = {"quick": 300, "thorough": 600}
REQUIRED_COUNTERS = ["tokens_checked", "lex_calls"]
MIN_NONTRIVIAL = {"quick": 200, "thorough": 2000}
FOUR = ("ansi", "postgres", "tsql", "bigquery")


def universe() -> list:
    u = []
    u += common.hs_cases()
    u += common.fx_cases()
    u += common.mx_cases(2)
    u += common.jj_cases(3000, "hostile", FOUR)
    u += common.jj_cases(1500, "lintable", FOUR) + common.jj_cases(160, "loopsep", FOUR)
    u += common.py_cases(800) + common.py_cases(300, True)
    u += common.ph_cases(800) + common.ph_cases(300, True)
    return u


def cases(tier, seed):
    u = universe()
    n = 2600 if tier == "quick" else 0
    return stratified_sample(u, lambda c: c["stratum"], n, seed)


def run_case(case):
    from sqlfluff.core.parser.lexer import PyLexer

    r = common.resolve(case)
    counters = {}
    lnt = sf.make_linter(r["dialect"], r["templater"], context=r["context"])
    cfg = lnt.config.copy()
    try:
        rendered = lnt.render_string(r["source"], "<string>", cfg, "utf8")
    except Exception as e:  # templater crash: C04's business, not C01's
        return {"status": "skip", "counters": {"render_raised": 1}, "detail": repr(e)[:200]}
    if not rendered.templated_variants:
        return {"status": "skip", "counters": {"no_variant": 1}}
    fails = []
    classes = set()
    ntok = 0
    for vi, tf in enumerate(rendered.templated_variants):
        counters["lex_calls"] = counters.get("lex_calls", 0) + 1
        if structure.ws_run_spans_slice_boundary(tf):
            classes.add("ws_run_spans_template_slice")
        if r["templater"] == "jinja" and r["source"].rstrip().endswith(("%}", "#}", "}}")):
            classes.add("ends_with_template_tag")
        try:
            segs, viols = PyLexer(config=rendered.config).lex(tf)
        except Exception as e:
            fails.append({"sig": ("alt:" if vi else "") + f"lex_raised:{type(e).__name__}", "detail": {"variant": vi, "err": repr(e)[:300]}})
            continue
        ntok += len(segs)
        for f in structure.check_tokens(tf, segs, viols, counters):
            f["detail"]["variant"] = vi
            if vi > 0:
                f["sig"] = "alt:" + f["sig"]
            fails.append(f)
    # keep the first failure per signature
    seen, uniq = set(), []
    for f in fails:
        if f["sig"] not in seen:
            seen.add(f["sig"])
            uniq.append(f)
    res = {
        "status": "fail" if uniq else "pass",
        "failures": uniq,
        "counters": counters,
        "classes": sorted(classes),
        "key": common.text_key(r) if ntok >= 2 else None,
    }
    if case["kind"] in ("jj", "hs", "ph") and ntok:
        res["sample"] = {"source": r["source"][:300], "dialect": r["dialect"], "templater": r["templater"], "tokens": ntok, "variants": len(rendered.templated_variants)}
    return res
