"""C02 — Parsing is lossless: tree leaves are exactly the lexed tokens."""

from vfw.gen.corpus import stratified_sample
from vfw.props import common, parsecase

PROPERTY = "C02"
LEVEL = "exploration"
RULE = (
    "case = (text, dialect[, templater]) from every dialect fixture, 2 seeded mutants per fixture, hostile strings (every 3rd x 28 dialects) "
    "and generated lintable Jinja/placeholder templates; the tokens handed to Parser.parse are captured by a wrapper and compared with the "
    "returned tree's leaves (text, source and rendered positions, order, multiplicity); distinct = content hash; non-trivial = tree with >= 3 leaves"
)
ASSUMPTIONS = ["Python Parser is the parser under test (no sqlfluffrs)", "zero-width metas are ignored except TemplateSegment/TemplateLoop which must survive in order"]
TIMEOUT = {"quick": 300, "thorough": 600}
REQUIRED_COUNTERS = ["leaves_checked", "parse_calls"]
MIN_NONTRIVIAL = {"quick": 100, "thorough": 1000}
FOUR = ("ansi", "postgres", "tsql", "bigquery")


def universe():
    u = common.fx_cases(20000) + common.mx_cases(2, 6000) + common.hs_cases(every=3)
    u += common.jj_cases(600, "lintable", FOUR) + common.jj_cases(400, "hostile", FOUR) + common.ph_cases(240, True) + common.py_cases(120, True)
    return u


def cases(tier, seed):
    # hostile strings are pooled into 4 strata so that fixtures / mutants of every dialect dominate the quick sample
    key = lambda c: ("hs:%d" % (c["n"] % 4)) if c["kind"] == "hs" else c["stratum"]
    return stratified_sample(universe(), key, 1500 if tier == "quick" else 0, seed)


def run_case(case):
    return parsecase.run(case, "C02")
