"""C33 — Violations are reported once and in source order."""

from vfw.core import sf
from vfw.gen.corpus import stratified_sample
from vfw.props import common

PROPERTY = "C33"
LEVEL = "exploration"
RULE = (
    "case = generated lintable Jinja template (loops over 0..3 items, conditionals with several rendering variants), placeholder/python template or a repo templater fixture, linted with all rules "
    "through Linter.lint_string (lint and fix mode); oracle: no two reported violations of the file share (code, line, column, description), and the list is sorted by (line, column); "
    "distinct = source hash; non-trivial = >= 2 violations reported and the template has a loop or >= 2 variants"
)
ASSUMPTIONS = ["'distinct violation' = same rule code, source line, source column and description"]
TIMEOUT = {"quick": 400, "thorough": 900}
MIN_NONTRIVIAL = {"quick": 60, "thorough": 1000}
REQUIRED_COUNTERS = ["violation_lists_checked"]
FOUR = ("ansi", "postgres", "tsql", "bigquery")


def universe():
    u = common.jj_cases(4000, "lintable", FOUR) + common.jj_cases(600, "hostile", FOUR) + common.ph_cases(200, True) + common.py_cases(200, True)
    out = []
    for i, c in enumerate(u):
        c = dict(c)
        c["fix"] = bool(i % 3 == 0)
        if c["fix"]:
            c["id"] += "|fix"
        out.append(c)
    return out


def cases(tier, seed):
    return stratified_sample(universe(), lambda c: c["stratum"], 450 if tier == "quick" else 0, seed)


def run_case(case):
    import collections

    r = common.resolve(case)
    lnt = sf.make_linter(r["dialect"], r["templater"], context=r["context"])
    try:
        linted = lnt.lint_string(r["source"], fix=case.get("fix", False))
        viols = linted.get_violations(filter_ignore=False, filter_warning=False)
        nvar = 0
    except Exception as e:
        return {"status": "skip", "counters": {"lint_raised": 1}, "detail": repr(e)[:200]}
    keys = [(v.rule_code(), v.line_no, v.line_pos, v.desc()) for v in viols]
    fails = []
    dup = [k for k, n in collections.Counter(keys).items() if n > 1]
    if dup:
        fails.append({"sig": "duplicate_violation", "detail": {"rule": dup[0][0], "dup": dup[:3], "source": r["source"][:400]}})
    order = [(v.line_no, v.line_pos) for v in viols]
    if order != sorted(order):
        fails.append({"sig": "violations_not_in_source_order", "detail": {"order": order[:12], "source": r["source"][:300]}})
    feats = set(r.get("features") or [])
    classes = set()
    if "conditional" in feats:
        classes.add("jinja.conditional")
    return {
        "status": "fail" if fails else "pass",
        "failures": fails,
        "classes": sorted(classes),
        "counters": {"violation_lists_checked": 1, "violations": len(viols)},
        "key": common.short_hash(r["source"]) if len(viols) >= 2 and (feats & {"loop", "conditional"} or r["templater"] != "jinja") else None,
        "sample": {"source": r["source"][:160], "violations": keys[:4]} if len(r["source"]) < 160 and len(viols) > 1 else None,
    }
