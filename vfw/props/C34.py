"""C34 — Oversized files are skipped, never parsed or modified."""

import json
import os
import shutil
import subprocess
import sys
import tempfile

from vfw.core import pool, sf

PROPERTY = "C34"
LEVEL = "exploration"
RULE = (
    "case = (limit kind byte|char, limit value, file size limit-1 | limit | limit+1 | 2*limit measured in that unit with ASCII or multi-byte text so that bytes != chars, lint|fix, serial|--processes 2, "
    "large_file_skip_fail on|off, limit 0 = disabled, limit configured in the project root or only in the file's own sub-directory config); the directory also holds a small fixable companion file; driver in a fresh process runs the real Linter.lint_paths with wrappers counting "
    "PyLexer.lex / Parser.parse calls per file and reads LintingResult.files_skipped; then the real CLI is run for the exit status; oracle for a file over the limit: never lexed/parsed, no violations "
    "reported, bytes/inode unchanged, counted as skipped, exit 1 iff large_file_skip_fail (else as the companion dictates); for a file at or below the limit: parsed, linted, fixed normally; "
    "distinct = parameter tuple; non-trivial = limit enabled"
)
ASSUMPTIONS = ["lex/parse call counting is done in the serial in-process run; the parallel route is judged on reported violations, file bytes, skipped count and exit status"]
TIMEOUT = {"quick": 900, "thorough": 1800}
MIN_NONTRIVIAL = {"quick": 30, "thorough": 100}
REQUIRED_COUNTERS = ["files_over_limit_checked", "files_within_limit_checked"]
LINE_ASCII = "SELECT a,b from some_table where x = 1;\n"
LINE_MB = "SELECT a,b from some_table where x = 'éñ'; -- ü\n"


def cases(tier, seed):
    out = []
    for kind in ("byte", "char"):
        for limit in (0, 400):
            for rel in ("minus1", "equal", "plus1", "double"):
                for text in ("ascii", "multibyte"):
                    for mode in ("lint", "fix"):
                        for procs in (1, 2):
                            for fail in (False, True):
                                if limit == 0 and (rel != "double" or fail):
                                    continue
                                for where in ("root", "nested"):
                                    if where == "nested" and (limit == 0 or text == "multibyte"):
                                        continue
                                    out.append({"id": f"{kind}:{limit}:{rel}:{text}:{mode}:p{procs}:fail={int(fail)}:{where}", "kind": kind, "limit": limit, "rel": rel, "text": text, "mode": mode, "procs": procs, "fail": fail, "where": where})
    if tier == "quick":
        import random

        random.Random(f"c34:{seed}").shuffle(out)
        return out[:60]
    return out


def make_text(case):
    line = LINE_ASCII if case["text"] == "ascii" else LINE_MB
    limit = case["limit"] or 400
    target = {"minus1": limit - 1, "equal": limit, "plus1": limit + 1, "double": 2 * limit}[case["rel"]]
    measure = (lambda s: len(s.encode("utf-8"))) if case["kind"] == "byte" else len
    txt = ""
    while measure(txt + line) <= target:
        txt += line
    # pad with a trailing comment of single-unit characters to hit the target exactly
    pad = target - measure(txt)
    if pad >= 3:
        txt += "--" + "x" * (pad - 3) + "\n"
    elif pad > 0:
        txt += "\n" * pad
    return txt, measure(txt), target


def run_case(case):
    root = os.path.realpath(tempfile.mkdtemp(prefix="vfw_c34_"))
    fails = []
    try:
        txt, size, target = make_text(case)
        core = {"dialect": "ansi", "rules": "LT01,CP01,LT12"}
        key = "large_file_skip_byte_limit" if case["kind"] == "byte" else "large_file_skip_char_limit"
        core[key] = str(case["limit"])
        if case["kind"] == "char":
            core["large_file_skip_byte_limit"] = "0"
        if case["fail"]:
            core["large_file_skip_fail"] = "True"
        bigdir = root
        if case.get("where") == "nested":
            # the limit is set only in the sub-directory's own config; the root allows far more
            bigdir = os.path.join(root, "models", "legacy")
            os.makedirs(bigdir)
            nested_core = {key: core.pop(key)}
            core[key] = "100000"
            sf.write_ini(bigdir, {"core": nested_core})
        sf.write_ini(root, {"core": core})
        bigpath = os.path.join(bigdir, "big.sql")
        with open(bigpath, "w", encoding="utf-8", newline="") as f:
            f.write(txt)
        with open(os.path.join(root, "small.sql"), "w", encoding="utf-8", newline="") as f:
            f.write("select a from t;\n")
        over = bool(case["limit"]) and size > case["limit"]
        st0 = os.stat(bigpath)
        env = pool.worker_env({"HOME": root})
        pr = subprocess.run([pool.PYTHON, "-m", "vfw.props.C34", case["mode"], str(case["procs"])], cwd=root, capture_output=True, timeout=600, env=env)
        rep = None
        for line in pr.stdout.decode("utf-8", "replace").splitlines():
            if line.startswith("VFWREPORT "):
                rep = json.loads(line[10:])
        if rep is None:
            return {"status": "harness_error", "detail": pr.stderr.decode("utf-8", "replace")[-600:]}
        now = open(bigpath, encoding="utf-8", newline="").read()
        st1 = os.stat(bigpath)
        classes = ["limit.char"] if case["kind"] == "char" else ["limit.byte"]
        if over:
            if case["procs"] == 1 and (rep["lexed"].get("big.sql") or rep["parsed"].get("big.sql")):
                fails.append({"sig": "oversized_file_was_lexed_or_parsed", "detail": {"lexed": rep["lexed"], "parsed": rep["parsed"]}})
            if rep["violations"].get("big.sql"):
                fails.append({"sig": "oversized_file_has_violations", "detail": {"n": len(rep["violations"]["big.sql"])}})
            if now != txt or (st0.st_ino, st0.st_mtime_ns) != (st1.st_ino, st1.st_mtime_ns):
                fails.append({"sig": "oversized_file_rewritten", "detail": {}})
            if rep["files_skipped"] != 1:
                fails.append({"sig": f"skipped_count_{rep['files_skipped']}_expected_1", "detail": {"report": {k: rep[k] for k in ("files_skipped",)}}})
        else:
            if rep["files_skipped"] != 0:
                fails.append({"sig": f"file_within_limit_skipped", "detail": {"size": size, "limit": case["limit"], "report_skipped": rep["files_skipped"]}})
            if not rep["violations"].get("big.sql"):
                fails.append({"sig": "file_within_limit_not_linted", "detail": {"size": size, "limit": case["limit"]}})
            if case["mode"] == "fix" and now == txt:
                fails.append({"sig": "file_within_limit_not_fixed", "detail": {"size": size, "limit": case["limit"]}})
        # exit status through the real CLI (fresh copy of the directory state)
        with open(bigpath, "w", encoding="utf-8", newline="") as f:
            f.write(txt)
        cmd = [pool.PYTHON, "-m", "sqlfluff", case["mode"], ".", "--processes", str(case["procs"]), "--nocolor"]
        rc = subprocess.run(cmd, cwd=root, capture_output=True, timeout=600, env=env).returncode
        if over:
            want = 1 if case["fail"] else 0
        else:
            want = 1 if case["mode"] == "lint" else 0
        if rc != want:
            fails.append({"sig": f"exit_{rc}_expected_{want}", "detail": {"over": over, "fail_flag": case["fail"], "mode": case["mode"]}})
        return {
            "status": "fail" if fails else "pass",
            "failures": fails,
            "classes": classes,
            "counters": {"files_over_limit_checked": int(over), "files_within_limit_checked": int(not over)},
            "key": case["id"] if case["limit"] else None,
            "sample": {"case": {k: case[k] for k in ("kind", "limit", "rel", "text", "mode", "procs", "fail")}, "size_in_unit": size, "bytes": len(txt.encode()), "chars": len(txt), "over": over, "report": rep, "exit": rc},
        }
    finally:
        shutil.rmtree(root, ignore_errors=True)


def _driver():
    mode, procs = sys.argv[1], int(sys.argv[2])
    from sqlfluff.core import FluffConfig, Linter
    from sqlfluff.core.parser.lexer import PyLexer
    from sqlfluff.core.parser.parser import Parser

    lexed, parsed = {}, {}
    ol, op = PyLexer.lex, Parser.parse

    def lex(self, raw):
        try:
            fn = os.path.basename(getattr(raw, "fname", "") or "")
            lexed[fn] = lexed.get(fn, 0) + 1
        except Exception:
            pass
        return ol(self, raw)

    def parse(self, segments, fname=None, parse_statistics=False):
        fn = os.path.basename(fname or "")
        parsed[fn] = parsed.get(fn, 0) + 1
        return op(self, segments, fname=fname, parse_statistics=parse_statistics)

    PyLexer.lex = lex
    Parser.parse = parse
    rep = {"error": None}
    try:
        lnt = Linter(config=FluffConfig.from_path("."))
        res = lnt.lint_paths((".",), fix=(mode == "fix"), apply_fixes=(mode == "fix"), processes=procs)
        rep["files_skipped"] = res.files_skipped
        rep["violations"] = {os.path.basename(r["filepath"]): [v["code"] for v in r["violations"]] for r in res.as_records()}
    except BaseException as e:
        rep["error"] = f"{type(e).__name__}: {str(e)[:200]}"
        rep["files_skipped"] = -1
        rep["violations"] = {}
    rep["lexed"], rep["parsed"] = lexed, parsed
    print("VFWREPORT " + json.dumps(rep))


if __name__ == "__main__":
    _driver()
