"""C26 — Writing fixed files is atomic and faithful (fault enumeration over the real write path)."""

import json
import os
import shutil
import stat
import subprocess
import sys
import tempfile

from vfw.core import pool

PROPERTY = "C26"
LEVEL = "fault_enumeration"
RULE = (
    "cell = encoding {utf-8, utf-8-sig, utf-16, latin-1} x file mode {0644, 0600, 0444, 0755} x fixed-suffix {none, '_fixed'} x {single file, three files with the fault while writing the 2nd}; "
    "for each cell the real Linter.lint_paths(fix=True) write path is first TRACED in a fresh process through proxies placed on the os / shutil / tempfile names used by linted_file.py "
    "(stat, NamedTemporaryFile, write, flush, fsync, close, chmod, move, exists, remove) to obtain the ordered list of filesystem operations; then for EVERY index k of that list and every fault mode "
    "{raise OSError(ENOSPC), raise OSError(EACCES), short write then raise, kill the process (os._exit) before op k, kill after op k} the run is repeated in a fresh process on a fresh copy and the "
    "directory inspected: target holds exactly the original bytes or exactly the complete fixed bytes; for raise modes no other file is left behind and the error surfaces; clean run: permissions, "
    "encoding and BOM preserved, newline style as produced, original untouched when a suffix is used; distinct = (cell, mode, k); non-trivial = the fault actually fired"
)
ASSUMPTIONS = ["faults are injected at the Python call boundary of the operations linted_file.py performs", "a killed process cannot clean up, so only the target-content invariant is required for kill modes"]
TIMEOUT = {"quick": 1200, "thorough": 2400}
MIN_NONTRIVIAL = {"quick": 100, "thorough": 800}
REQUIRED_COUNTERS = ["faults_fired", "ops_traced"]
EXHAUSTIVE = {"thorough": True}
ENCODINGS = ["utf-8", "utf-8-sig", "utf-16", "latin-1"]
MODES = [0o644, 0o600, 0o444, 0o755]
FAULTS = ["raise_enospc", "raise_eacces", "shortwrite", "kill_before", "kill_after"]
SQL = "SELECT a,b from t; -- café\r\nselect  c from u;\n"
SQL2 = "select a from t\n"


def cells():
    out = []
    for e in ENCODINGS:
        for m in MODES:
            for sfx in ("", "_fixed"):
                for nf in (1, 3):
                    out.append({"enc": e, "mode": m, "suffix": sfx, "nfiles": nf})
    return out


def cases(tier, seed):
    import random

    cs = cells()
    r = random.Random(f"c26:{seed}")
    if tier == "quick":
        r.shuffle(cs)
        cs = cs[:7]
    out = []
    for c in cs:
        for f in FAULTS:
            d = dict(c)
            d["fault"] = f
            d["id"] = f"cell:{c['enc']}:{oct(c['mode'])}:{c['suffix'] or 'nosfx'}:{c['nfiles']}|{f}"
            out.append(d)
    return out


def make_dir(cell):
    root = os.path.realpath(tempfile.mkdtemp(prefix="vfw_c26_"))
    enc = cell["enc"]
    with open(os.path.join(root, ".sqlfluff"), "w") as f:
        f.write("[sqlfluff]\ndialect = ansi\nrules = LT01,CP01,LT12\nencoding = %s\n" % ("autodetect" if enc in ("utf-8-sig", "utf-16") else enc))
    names = ["a.sql", "b.sql", "c.sql"][: cell["nfiles"]] if cell["nfiles"] == 3 else ["b.sql"]
    for n in names:
        p = os.path.join(root, n)
        with open(p, "w", encoding=enc, newline="") as f:
            f.write(SQL)
        os.chmod(p, cell["mode"])
    return root, names


def snapshot(root):
    out = {}
    for n in sorted(os.listdir(root)):
        p = os.path.join(root, n)
        with open(p, "rb") as f:
            out[n] = f.read()
    return out


def drive(root, cell, spec):
    env = pool.worker_env({"HOME": root, "VFW_C26_SPEC": json.dumps(spec)})
    pr = subprocess.run([pool.PYTHON, "-m", "vfw.props.C26", cell["suffix"]], cwd=root, capture_output=True, timeout=300, env=env)
    rep = None
    for line in pr.stdout.decode("utf-8", "replace").splitlines():
        if line.startswith("VFWREPORT "):
            rep = json.loads(line[10:])
    return pr.returncode, rep, pr.stderr.decode("utf-8", "replace")[-500:]


def run_case(case):
    fails = []
    counters = {"faults_fired": 0, "ops_traced": 0, "injections": 0}
    keys = []
    # 1. clean traced run
    root, names = make_dir(case)
    try:
        before = snapshot(root)
        rc, rep, err = drive(root, case, {"mode": "trace", "target": "b.sql"})
        if rep is None:
            return {"status": "harness_error", "detail": err}
        ops = rep["ops"]
        counters["ops_traced"] = len(ops)
        after = snapshot(root)
        target_out = "b_fixed.sql" if case["suffix"] else "b.sql"
        if target_out not in after:
            return {"status": "skip", "counters": {"nothing_written": 1}, "detail": rep}
        fixed_bytes = after[target_out]
        # success-path checks
        if rep.get("raised"):
            fails.append({"sig": "clean_run_raised", "detail": rep})
        if case["suffix"] and after["b.sql"] != before["b.sql"]:
            fails.append({"sig": "suffix_run_modified_original", "detail": {}})
        m_out = stat.S_IMODE(os.stat(os.path.join(root, target_out)).st_mode)
        if m_out != case["mode"]:
            fails.append({"sig": "permissions_not_preserved", "detail": {"want": oct(case["mode"]), "got": oct(m_out)}})
        try:
            txt = fixed_bytes.decode(case["enc"])
        except Exception as e:
            txt = None
            fails.append({"sig": "encoding_not_preserved", "detail": {"enc": case["enc"], "err": repr(e)[:100], "head": fixed_bytes[:12].hex()}})
        if txt is not None:
            if case["enc"] == "utf-8-sig" and not fixed_bytes.startswith(b"\xef\xbb\xbf"):
                fails.append({"sig": "bom_lost", "detail": {"head": fixed_bytes[:8].hex()}})
            if case["enc"] == "utf-16" and fixed_bytes[:2] not in (b"\xff\xfe", b"\xfe\xff"):
                fails.append({"sig": "bom_lost", "detail": {"head": fixed_bytes[:8].hex()}})
            if "café" not in txt:
                fails.append({"sig": "untouched_text_changed", "detail": {"text": txt[:80]}})
            if "\r\n" in txt.replace("\r\n", "\n") or "\r" in txt:
                fails.append({"sig": "newlines_not_as_produced", "detail": {"text": repr(txt[:80])}})
        legit = {n.replace(".sql", "_fixed.sql") for n in names} if case["suffix"] else set()
        stray = [n for n in after if n not in before and n != target_out and n not in legit]
        if stray:
            fails.append({"sig": "clean_run_left_stray_file", "detail": {"stray": stray}})
    finally:
        shutil.rmtree(root, ignore_errors=True)
    # 2. every op index x this case's fault mode
    fault = case["fault"]
    for k, opname in enumerate(ops):
        if fault == "shortwrite" and opname != "write":
            continue
        root, names = make_dir(case)
        try:
            before = snapshot(root)
            rc, rep, err = drive(root, case, {"mode": fault, "k": k, "target": "b.sql"})
            counters["injections"] += 1
            after = snapshot(root)
            fired = (rep or {}).get("fired") if rep else (rc == 137)
            if rc == 137:
                fired = True
            if not fired:
                continue
            counters["faults_fired"] += 1
            keys.append(f"{case['id']}|{k}:{opname}")
            tgt = after.get(target_out)
            orig_b = before.get(target_out)  # None when a suffix is used (file does not exist before)
            ok_vals = [fixed_bytes] + ([orig_b] if orig_b is not None else [None])
            if tgt not in ok_vals:
                fails.append({"sig": f"torn_target:{fault}@{opname}", "detail": {"k": k, "op": opname, "len": len(tgt or b""), "want_fixed_len": len(fixed_bytes), "head": (tgt or b"")[:40].hex()}})
            if after.get("b.sql") != before["b.sql"] and case["suffix"]:
                fails.append({"sig": f"original_modified_with_suffix:{fault}@{opname}", "detail": {"k": k}})
            # other input files must be intact or completely fixed
            for n in names:
                if n == "b.sql":
                    continue
                out_n = n.replace(".sql", "_fixed.sql") if case["suffix"] else n
                if after.get(out_n) not in (before.get(out_n), fixed_bytes, None if case["suffix"] else before.get(n)):
                    fails.append({"sig": f"other_file_torn:{fault}@{opname}", "detail": {"file": n}})
            if fault.startswith("raise") or fault == "shortwrite":
                stray = [n for n in after if n not in before and n not in (target_out, "a_fixed.sql", "c_fixed.sql")]
                if stray:
                    fails.append({"sig": f"temp_file_left_behind:{fault}@{opname}", "detail": {"k": k, "stray": stray}})
                if rep is not None and not rep.get("raised") and opname not in ("stat", "exists", "remove"):
                    fails.append({"sig": f"write_error_swallowed:{fault}@{opname}", "detail": {"k": k, "report": rep}})
        finally:
            for n in os.listdir(root) if os.path.isdir(root) else []:
                try:
                    os.chmod(os.path.join(root, n), 0o644)
                except Exception:
                    pass
            shutil.rmtree(root, ignore_errors=True)
    seen, uniq = set(), []
    for f in fails:
        if f["sig"] not in seen:
            seen.add(f["sig"])
            uniq.append(f)
    return {
        "status": "fail" if uniq else "pass",
        "failures": uniq,
        "counters": counters,
        "keys": keys,
        "executions": counters["injections"] + 1,  # the traced fault-free run + one run per injected fault
        "sample": {"cell": {k: case[k] for k in ("enc", "mode", "suffix", "nfiles", "fault")}, "ops": ops, "faults_fired": counters["faults_fired"]},
    }


# ---------------------------------------------------------------- driver (fresh process)
def _driver():
    import errno

    spec = json.loads(os.environ["VFW_C26_SPEC"])
    suffix = sys.argv[1] if len(sys.argv) > 1 else ""
    state = {"n": 0, "ops": [], "fired": False, "armed": False}

    def point(name, before=True):
        """Called around every traced op of the target file's write."""
        if not state["armed"]:
            return None
        if before:
            k = state["n"]
            state["ops"].append(name)
            state["n"] += 1
            if spec["mode"] == "trace":
                return None
            if k == spec.get("k"):
                state["fired"] = True
                if spec["mode"] == "kill_before":
                    sys.stdout.flush()
                    os._exit(137)
                if spec["mode"] == "raise_enospc":
                    raise OSError(errno.ENOSPC, "No space left on device (injected)")
                if spec["mode"] == "raise_eacces":
                    raise OSError(errno.EACCES, "Permission denied (injected)")
                if spec["mode"] == "shortwrite":
                    return "short"
                if spec["mode"] == "kill_after":
                    return "kill_after"
        return None

    def after(tag):
        if tag == "kill_after":
            sys.stdout.flush()
            os._exit(137)

    import shutil as _shutil
    import tempfile as _tempfile

    from sqlfluff.core.linter import linted_file as lf

    class OsProxy:
        def __init__(self, real):
            self._r = real
            self.path = PathProxy(real.path)

        def __getattr__(self, n):
            return getattr(self._r, n)

        def stat(self, *a, **k):
            t = point("stat")
            r = self._r.stat(*a, **k)
            after(t)
            return r

        def fsync(self, *a, **k):
            t = point("fsync")
            r = self._r.fsync(*a, **k)
            after(t)
            return r

        def chmod(self, *a, **k):
            t = point("chmod")
            r = self._r.chmod(*a, **k)
            after(t)
            return r

        def remove(self, *a, **k):
            t = point("remove")
            r = self._r.remove(*a, **k)
            after(t)
            return r

    class PathProxy:
        def __init__(self, real):
            self._r = real

        def __getattr__(self, n):
            return getattr(self._r, n)

        def exists(self, *a, **k):
            if state["armed"] and state["ops"] and ("move" in state["ops"] or state["fired"]):
                pass
            return self._r.exists(*a, **k)

    class ShutilProxy:
        def __getattr__(self, n):
            return getattr(_shutil, n)

        def move(self, *a, **k):
            t = point("move")
            r = _shutil.move(*a, **k)
            after(t)
            return r

    class FileProxy:
        def __init__(self, f):
            self._f = f

        def __getattr__(self, n):
            return getattr(self._f, n)

        def write(self, data):
            t = point("write")
            if t == "short":
                self._f.write(data[: max(1, len(data) // 2)])
                self._f.flush()
                import errno as _e

                raise OSError(_e.ENOSPC, "No space left on device (injected short write)")
            r = self._f.write(data)
            after(t)
            return r

    class TmpProxy:
        def __init__(self, tmp):
            self._t = tmp
            self.name = tmp.name
            self.file = FileProxy(tmp.file)

        def __getattr__(self, n):
            return getattr(self._t, n)

        def flush(self):
            t = point("flush")
            r = self._t.flush()
            after(t)
            return r

        def __enter__(self):
            self._t.__enter__()
            return self

        def __exit__(self, *exc):
            # close
            if exc[0] is None:
                try:
                    t = point("close")
                except BaseException:
                    self._t.__exit__(None, None, None)
                    raise
                r = self._t.__exit__(*exc)
                after(t)
                return r
            return self._t.__exit__(*exc)

    class TempfileProxy:
        def __getattr__(self, n):
            return getattr(_tempfile, n)

        def NamedTemporaryFile(self, *a, **k):
            t = point("NamedTemporaryFile")
            r = TmpProxy(_tempfile.NamedTemporaryFile(*a, **k))
            after(t)
            return r

    lf.os = OsProxy(os)
    lf.shutil = ShutilProxy()
    lf.tempfile = TempfileProxy()

    # arm only while the target file is being written
    orig = lf.LintedFile._safe_create_replace_file

    def armed(input_path, output_path, write_buff, encoding):
        if os.path.basename(input_path) == spec["target"]:
            state["armed"] = True
        try:
            return orig(input_path, output_path, write_buff, encoding)
        finally:
            state["armed"] = False

    lf.LintedFile._safe_create_replace_file = staticmethod(armed)

    from sqlfluff.core import FluffConfig, Linter

    report = {"raised": None}
    try:
        lnt = Linter(config=FluffConfig.from_path("."))
        lnt.lint_paths((".",), fix=True, apply_fixes=True, fixed_file_suffix=suffix, processes=1)
    except BaseException as e:
        report["raised"] = f"{type(e).__name__}: {str(e)[:150]}"
    report["ops"] = state["ops"]
    report["fired"] = state["fired"]
    print("VFWREPORT " + json.dumps(report))


if __name__ == "__main__":
    _driver()
