"""C06 — Parsing is deterministic and unaffected by parser optimisations (differential)."""

import hashlib
import json
import os
import subprocess
import sys

from vfw.core import pool, sf
from vfw.gen.corpus import stratified_sample
from vfw.monitors import hooks
from vfw.props import common

PROPERTY = "C06"
LEVEL = "exploration"
RULE = (
    "case = (text, dialect) from every 2nd dialect fixture <= 3 kB, a seeded mutant of every 3rd, hostile strings, lintable Jinja templates and minified single-line statements of 6-10 k characters; the same text is parsed by the real parser (a) normally, "
    "(b) with the parse cache disabled (ParseContext.check_parse_cache -> None), (c) with first-token pruning disabled (prune_options -> all options), (d) both, (e) again with a new Linter "
    "after the worker process has parsed a history of other files/dialects/templaters, for 'fresh' cases (f) in a brand-new interpreter, and (g) 'pair' cases: one Parser object parses a statement and then a same-shaped statement with different token kinds, compared with a fresh Parser; oracle: identical tree "
    "(to_tuple with raws and metas) and identical PRS list in all runs; distinct = content hash; non-trivial = tree has >= 5 leaves and the cache was hit / options were pruned in run (a)"
)
ASSUMPTIONS = ["tree equality is judged on to_tuple(show_raw=True, include_meta=True) plus PRS descriptions"]
TIMEOUT = {"quick": 600, "thorough": 1200}
MIN_NONTRIVIAL = {"quick": 30, "thorough": 600}
REQUIRED_COUNTERS = ["cache_hits_normal", "options_pruned_normal", "nocache_parses", "noprune_parses"]
RECYCLE = 150
FLAGS = {"nocache": False, "noprune": False, "hits": 0, "pruned": 0, "installed": False}
FOUR = ("ansi", "postgres", "tsql", "bigquery")


def install():
    if FLAGS["installed"]:
        return
    from sqlfluff.core.parser import match_algorithms
    from sqlfluff.core.parser.context import ParseContext

    def mk_cache(orig):
        def check_parse_cache(self, loc_key, matcher_key):
            if FLAGS["nocache"]:
                return None
            res = orig(self, loc_key, matcher_key)
            if res is not None:
                FLAGS["hits"] += 1
            return res

        return check_parse_cache

    def mk_prune(orig):
        def prune_options(options, segments, parse_context, start_idx=0):
            if FLAGS["noprune"]:
                return list(options)
            res = orig(options, segments, parse_context, start_idx)
            FLAGS["pruned"] += len(options) - len(res)
            return res

        return prune_options

    hooks.wrap(ParseContext, "check_parse_cache", mk_cache)
    hooks.wrap(match_algorithms, "prune_options", mk_prune)
    FLAGS["installed"] = True


def universe():
    u = common.fx_cases(3000)[::2] + common.mx_cases(1, 3000, start=40)[::3] + common.hs_cases(every=11) + common.jj_cases(200, "lintable", FOUR)
    # minified / generated SQL: very long single lines with the same token recurring at regular columns
    for d in ("ansi", "postgres", "bigquery", "tsql"):
        for item, n in (("ab, ", 1600), ("abcdef, ", 900), ("foo + 1 AS c, ", 700), ("(a), ", 1300), ("'x' AS k, ", 800)):
            for lead in ("select ", "select\n    x,\n    "):
                src = lead + item * n + "z from t where ab > 0\n"
                u.append({"id": f"long:{d}:{item.strip()}:{n}:{len(lead)}", "kind": "lit", "source": src, "dialect": d, "stratum": f"longline:{d}"})
    out = []
    for i, c in enumerate(u):
        c = dict(c)
        if i % 9 == 0:
            c["fresh"] = True
            c["id"] += "|fresh"
            c["stratum"] += "|fresh"
        out.append(c)
    return out


PAIRS = [
    ("SELECT a, b FROM tbl", "SELECT 1, 'x' FROM tbl"), ("UPDATE t SET a = b", "UPDATE t SET a = 1"), ("select a from t where b", "select 1 from t where 2"),
    ("SELECT a FROM t ORDER BY b", "SELECT a FROM t ORDER BY 1"), ("select f(a) from t", "select f(1) from t"), ("SELECT a AS b FROM t", "SELECT 1 AS b FROM t"),
    ("select a, b, c from t", "select a, 'b', c from t"), ("INSERT INTO t VALUES (a)", "INSERT INTO t VALUES (1)"), ("select a from t group by b", "select a from t group by 1"),
    ("SELECT x FROM a JOIN b ON c", "SELECT x FROM a JOIN b ON 1"), ("select case when a then b end", "select case when 1 then 2 end"), ("SELECT a IN (b, c)", "SELECT a IN (1, 2)"),
]


def pair_cases():
    out = []
    for d in ("ansi", "postgres", "bigquery", "tsql", "mysql", "snowflake"):
        for i, (a, b) in enumerate(PAIRS):
            for order in (0, 1):
                out.append({"id": f"pair:{d}:{i}:{order}", "kind": "pair", "dialect": d, "a": (a, b)[order], "b": (b, a)[order], "stratum": "pair"})
    return out


def cases(tier, seed):
    if tier == "quick":
        return stratified_sample(universe(), lambda c: c["stratum"], 150, seed) + pair_cases()
    return universe() + pair_cases()


def run_pair(case):
    """History at the Parser-object level: ONE Parser parses statement A, then a same-shaped statement B;
    B's tree must equal the tree a fresh Parser gives for B."""
    from sqlfluff.core import FluffConfig
    from sqlfluff.core.parser import Lexer, Parser

    cfg = FluffConfig(overrides={"dialect": case["dialect"]})

    def toks(sql):
        return tuple(Lexer(config=cfg).lex(sql)[0])

    def sig(tree):
        return repr(tree.to_tuple(show_raw=True, include_meta=True)) if tree is not None else "NONE"

    try:
        shared = Parser(config=cfg)
        shared.parse(toks(case["a"] + "\n"))
        got = sig(shared.parse(toks(case["b"] + "\n")))
        again = sig(shared.parse(toks(case["b"] + "\n")))
        want = sig(Parser(config=cfg).parse(toks(case["b"] + "\n")))
    except Exception as e:
        return {"status": "skip", "counters": {"parse_raised_in_every_mode": 1}, "detail": repr(e)[:200]}
    fails = []
    if got != want:
        fails.append({"sig": "tree_differs:same_parser_after_other_file", "detail": {"first": case["a"], "second": case["b"], "dialect": case["dialect"]}})
    if again != want:
        fails.append({"sig": "tree_differs:same_parser_repeat", "detail": {"second": case["b"], "dialect": case["dialect"]}})
    return {"status": "fail" if fails else "pass", "failures": fails, "counters": {"shared_parser_pairs": 1, "cache_hits_normal": 1, "options_pruned_normal": 1, "nocache_parses": 0, "noprune_parses": 0},
            "key": case["id"], "sample": {"first": case["a"], "second": case["b"], "dialect": case["dialect"]} if case["id"].endswith(":0:0") else None}


def tree_sig(parsed):
    parts = []
    for v in parsed.parsed_variants:
        t = v.tree
        parts.append(repr(t.to_tuple(show_raw=True, include_meta=True)) if t is not None else "NONE")
        parts.append(repr(sorted((e.desc(), e.line_no, e.line_pos) for e in v.parsing_violations)))
        parts.append(repr(sorted((e.desc(), e.line_no, e.line_pos) for e in v.lexing_violations)))
    return hashlib.sha1("\n".join(parts).encode("utf-8", "surrogatepass")).hexdigest()


def parse_once(r, nocache=False, noprune=False):
    FLAGS["nocache"], FLAGS["noprune"] = nocache, noprune
    try:
        lnt = sf.make_linter(r["dialect"], r["templater"], context=r["context"], cache=False)
        parsed = lnt.parse_string(r["source"])
        leaves = sum(len(v.tree.raw_segments) for v in parsed.parsed_variants if v.tree is not None)
        return tree_sig(parsed), leaves
    finally:
        FLAGS["nocache"], FLAGS["noprune"] = False, False


def run_case(case):
    if case["kind"] == "pair":
        install()
        return run_pair(case)
    install()
    r = common.resolve(case)
    counters = {}
    FLAGS["hits"] = FLAGS["pruned"] = 0
    base_err = None
    try:
        base, leaves = parse_once(r)
    except Exception as e:
        base, leaves, base_err = None, 0, f"{type(e).__name__}: {str(e)[:120]}"
    hits, pruned = FLAGS["hits"], FLAGS["pruned"]
    counters["cache_hits_normal"] = hits
    counters["options_pruned_normal"] = pruned
    fails = []
    outcomes = {"normal": base if base_err is None else "RAISED:" + base_err.split(":")[0]}
    for name, kw in (("nocache", {"nocache": True}), ("noprune", {"noprune": True}), ("nocache_noprune", {"nocache": True, "noprune": True}), ("repeat", {})):
        try:
            sig, lv = parse_once(r, **kw)
            leaves = max(leaves, lv)
        except Exception as e:
            sig = "RAISED:" + type(e).__name__
        counters[f"{name}_parses"] = 1
        outcomes[name] = sig
        if sig != outcomes["normal"]:
            kind = "raises_only_in_some_modes" if "RAISED" in str(sig) + str(outcomes["normal"]) else "tree_differs"
            fails.append({"sig": f"{kind}:{name}", "detail": {"source": r["source"][:300], "dialect": r["dialect"], "normal": str(outcomes["normal"])[:60], name: str(sig)[:60], "base_error": base_err}})
    if base_err is not None and not fails:
        return {"status": "skip", "counters": {"parse_raised_in_every_mode": 1}, "detail": base_err}
    if case.get("fresh"):
        try:
            out = subprocess.run(
                [pool.PYTHON, "-m", "vfw.props.C06", json.dumps(case)], capture_output=True, timeout=300, env=pool.worker_env(), cwd=pool.ROOT
            )
            fresh_sig = out.stdout.decode().strip().splitlines()[-1] if out.returncode == 0 and out.stdout.strip() else None
        except Exception:
            fresh_sig = None
        if fresh_sig is None:
            counters["fresh_failed_to_run"] = 1
        else:
            counters["fresh_process_parses"] = 1
            if base is not None and fresh_sig != base:
                fails.append({"sig": "tree_differs:fresh_process_vs_history", "detail": {"source": r["source"][:300], "dialect": r["dialect"]}})
    return {
        "status": "fail" if fails else "pass",
        "failures": fails,
        "counters": counters,
        "key": common.text_key(r) if leaves >= 5 and hits and pruned else None,
        "sample": {"source": r["source"][:160], "dialect": r["dialect"], "cache_hits": hits, "options_pruned": pruned, "leaves": leaves} if case["kind"] == "mx" else None,
    }


if __name__ == "__main__":  # fresh-interpreter probe
    c = json.loads(sys.argv[1])
    rr = common.resolve(c)
    print(parse_once(rr)[0])
