"""C31 — Offset-to-line/column conversion is exact (exhaustive small scope + shadowed production calls)."""

import itertools

from vfw.core import sf
from vfw.gen.corpus import stratified_sample
from vfw.monitors import hooks
from vfw.props import common

PROPERTY = "C31"
LEVEL = "exploration"
RULE = (
    "(a) exhaustive small scope: all 21 845 strings of length <= 7 over {a, LF, CR, e-acute} x every offset 0..len, on the source side and on the rendered side of a real TemplatedFile "
    "(get_line_pos_of_char_pos), and PositionMarker.infer_next_position for every pair of split points, against line = count('\\n' before offset)+1, col = offset - (index of last '\\n' before offset) ; "
    "(b) shadow: a wrapper on TemplatedFile.get_line_pos_of_char_pos re-computes every call made while real fixtures / Jinja templates are linted; distinct = string / file hash; "
    "non-trivial = string contains a newline resp. the lint made at least one call"
)
ASSUMPTIONS = ["runtime monitoring cannot prove the statement for all strings; small scope is complete for length <= 7 over a 4-letter alphabet that contains every character class the implementation distinguishes"]
TIMEOUT = {"quick": 300, "thorough": 600}
MIN_NONTRIVIAL = {"quick": 50, "thorough": 200}
REQUIRED_COUNTERS = ["offsets_checked", "shadowed_calls"]
EXHAUSTIVE = {"quick": True, "thorough": True}
ALPHA = "a\n\ré"
FOUR = ("ansi", "postgres", "tsql", "bigquery")


def model(s, i):
    return s.count("\n", 0, i) + 1, i - (s.rfind("\n", 0, i) + 1) + 1


def cases(tier, seed):
    # unit: partition the string space by (length, first two letters) -> 1+4+16*6 chunks
    unit = [{"id": "u:short", "kind": "unit", "prefix": None, "stratum": "unit"}]
    for n in range(2, 8):
        for a, b in itertools.product(range(4), repeat=2):
            unit.append({"id": f"u:{n}:{a}{b}", "kind": "unit", "n": n, "prefix": [a, b], "stratum": "unit"})
    sh = []
    for c in common.fx_cases(3000) + common.jj_cases(400, "lintable", FOUR) + common.ph_cases(100, True):
        c = dict(c)
        c["mode"] = "shadow"
        c["id"] = "sh:" + c["id"]
        c["stratum"] = "sh:" + c["stratum"]
        sh.append(c)
    return unit + stratified_sample(sh, lambda c: c["stratum"], 150 if tier == "quick" else 1200, seed)


def strings_for(case):
    if case["prefix"] is None:
        yield ""
        for ch in ALPHA:
            yield ch
        return
    n = case["n"]
    pre = "".join(ALPHA[i] for i in case["prefix"])
    for rest in itertools.product(ALPHA, repeat=n - 2):
        yield pre + "".join(rest)


def run_unit(case):
    from sqlfluff.core.parser.markers import PositionMarker
    from sqlfluff.core.templaters.base import RawFileSlice, TemplatedFile, TemplatedFileSlice

    n_off = 0
    n_inf = 0
    fails = []
    other = "x\n\nyy\n"
    for s in strings_for(case):
        tf_src = TemplatedFile(source_str=s, fname="f")
        # rendered side differs from the source side
        tf_tmpl = TemplatedFile(
            source_str=other,
            fname="f",
            templated_str=s,
            sliced_file=[TemplatedFileSlice("templated", slice(0, len(other)), slice(0, len(s)))],
            raw_sliced=[RawFileSlice(other, "templated", 0)],
        )
        for i in range(len(s) + 1):
            want = model(s, i)
            n_off += 2
            got = tf_src.get_line_pos_of_char_pos(i, source=True)
            if tuple(got) != want:
                fails.append({"sig": "source_side_linepos_wrong", "detail": {"string": s, "offset": i, "got": got, "want": want}})
                break
            got = tf_tmpl.get_line_pos_of_char_pos(i, source=False)
            if tuple(got) != want:
                fails.append({"sig": "rendered_side_linepos_wrong", "detail": {"string": s, "offset": i, "got": got, "want": want}})
                break
            for j in range(i, len(s) + 1):
                n_inf += 1
                got = PositionMarker.infer_next_position(s[i:j], want[0], want[1])
                if tuple(got) != model(s, j):
                    fails.append({"sig": "infer_next_position_wrong", "detail": {"string": s, "i": i, "j": j, "got": got, "want": model(s, j)}})
                    break
            if fails:
                break
        if fails:
            break
    return {
        "status": "fail" if fails else "pass",
        "failures": fails[:1],
        "counters": {"offsets_checked": n_off, "infer_next_checked": n_inf},
        "keys": [case["id"]] if case["prefix"] is None or 1 in case["prefix"] or case["n"] > 2 else [],
        "sample": {"chunk": case["id"], "offsets_checked": n_off} if case["id"].endswith("13") else None,
    }


_sh = {"installed": False, "calls": 0, "bad": []}


def install():
    if _sh["installed"]:
        return
    from sqlfluff.core.templaters.base import TemplatedFile

    def mk(orig):
        def get_line_pos_of_char_pos(self, char_pos, source=True):
            res = orig(self, char_pos, source)
            _sh["calls"] += 1
            try:
                s = self.source_str if source else self.templated_str
                if 0 <= char_pos <= len(s) and tuple(res) != model(s, char_pos) and len(_sh["bad"]) < 3:
                    _sh["bad"].append({"offset": char_pos, "source_side": source, "got": tuple(res), "want": model(s, char_pos), "context": s[max(0, char_pos - 20) : char_pos + 20]})
            except Exception:
                pass
            return res

        return get_line_pos_of_char_pos

    hooks.wrap(TemplatedFile, "get_line_pos_of_char_pos", mk)
    _sh["installed"] = True


def run_shadow(case):
    install()
    _sh["calls"] = 0
    del _sh["bad"][:]
    r = common.resolve(case)
    lnt = sf.make_linter(r["dialect"], r["templater"], context=r["context"])
    try:
        linted = lnt.lint_string(r["source"])
        for v in linted.get_violations(filter_ignore=False, filter_warning=False):
            v.to_dict()
    except Exception as e:
        return {"status": "skip", "counters": {"lint_raised": 1}, "detail": repr(e)[:200]}
    fails = [{"sig": "shadowed_call_wrong", "detail": b} for b in _sh["bad"][:1]]
    return {
        "status": "fail" if fails else "pass",
        "failures": fails,
        "counters": {"shadowed_calls": _sh["calls"], "offsets_checked": 0},
        "key": common.text_key(r) if _sh["calls"] else None,
        "sample": {"source": r["source"][:100], "calls": _sh["calls"]} if len(r["source"]) < 100 else None,
    }


def run_case(case):
    return run_unit(case) if case["kind"] == "unit" else run_shadow(case)
