"""C29 — Dialect definitions are complete (live grammar-graph walk + lexer totality sweep)."""

from vfw.gen.corpus import DIALECTS
from vfw.monitors import structure

PROPERTY = "C29"
LEVEL = "exploration"
RULE = (
    "one case per bundled dialect (28) for the grammar walk and one (thorough: plus a pair sweep) for the lexer: the dialect is loaded with dialect_selector, the live grammar object graph is walked from "
    "get_root_segment() along match_grammar / element lists / terminators / exclude / delimiter / bracket refs, every Ref is resolved through the real Ref._get_elem, .simple() is called on every element "
    "with a real ParseContext, every entry of both bracket sets is resolved, every library entry is additionally walked (so unreachable-from-root definitions are covered too, counted separately); lexer: "
    "every code point of a ~1300-character alphabet alone (thorough: all pairs of a 60-character hostile subset) through PyLexer.lex + the C01 oracle; distinct = dialect x part; non-trivial = >= 100 elements walked / >= 100 strings lexed"
)
ASSUMPTIONS = ["the walk is complete for the object graph as loaded (finite); grammar elements are discovered through instance attributes holding Matchables"]
TIMEOUT = {"quick": 400, "thorough": 900}
MIN_NONTRIVIAL = {"quick": 40, "thorough": 56}
REQUIRED_COUNTERS = ["elements_walked", "refs_resolved", "strings_lexed"]
EXHAUSTIVE = {"quick": True, "thorough": True}


def cases(tier, seed):
    out = []
    for d in DIALECTS:
        out.append({"id": f"walk:{d}", "kind": "walk", "dialect": d})
        out.append({"id": f"lex:{d}", "kind": "lex", "dialect": d, "pairs": False})
        if tier == "thorough":
            out.append({"id": f"lexpairs:{d}", "kind": "lex", "dialect": d, "pairs": True})
    return out


def run_walk(case):
    from sqlfluff.core.dialects import dialect_selector
    from sqlfluff.core.parser.context import ParseContext
    from sqlfluff.core.parser.grammar.base import BaseGrammar, Ref
    from sqlfluff.core.parser.grammar.sequence import Bracketed
    from sqlfluff.core.parser.matchable import Matchable

    name = case["dialect"]
    fails = []
    try:
        dialect = dialect_selector(name)
        root = dialect.get_root_segment()
    except Exception as e:
        return {"status": "fail", "failures": [{"sig": f"dialect_does_not_load:{type(e).__name__}", "detail": {"err": repr(e)[:300]}}], "counters": {}}
    ctx = ParseContext(dialect=dialect, max_parse_depth=0)
    seen = set()
    counters = {"elements_walked": 0, "refs_resolved": 0, "simple_calls": 0, "brackets_resolved": 0}
    unresolved = []
    errors = []

    def is_m(x):
        try:
            if isinstance(x, type):
                # raw segment classes held by parsers (raw_class etc.) are not grammar references
                return issubclass(x, Matchable) and getattr(x, "match_grammar", None) is not None
            return isinstance(x, Matchable)
        except Exception:
            return False

    def children(obj):
        if isinstance(obj, type):
            mg = getattr(obj, "match_grammar", None)
            if mg is not None:
                yield mg
            return
        if isinstance(obj, Ref):
            try:
                counters["refs_resolved"] += 1
                yield obj._get_elem(dialect=dialect)
            except BaseException as e:
                unresolved.append((obj._ref, f"{type(e).__name__}: {str(e)[:120]}"))
            if obj.exclude is not None:
                yield obj.exclude
            for t in obj.terminators or ():
                yield t
            return
        if isinstance(obj, Bracketed):
            try:
                s, e_, _ = obj.get_bracket_from_dialect(ctx)
                counters["brackets_resolved"] += 1
                yield s
                yield e_
            except BaseException as e:
                errors.append(("bracket_type_unresolved", f"{obj.bracket_type}/{obj.bracket_pairs_set}: {type(e).__name__}: {str(e)[:120]}"))
        d = getattr(obj, "__dict__", {})
        for k, v in d.items():
            if isinstance(v, (list, tuple)):
                for x in v:
                    if is_m(x):
                        yield x
            elif is_m(v):
                yield v

    def walk(start):
        stack = [start]
        while stack:
            obj = stack.pop()
            key = id(obj)
            if key in seen:
                continue
            seen.add(key)
            counters["elements_walked"] += 1
            if isinstance(obj, BaseGrammar) or (isinstance(obj, type) and getattr(obj, "match_grammar", None) is not None):
                try:
                    counters["simple_calls"] += 1
                    obj.simple(parse_context=ctx)
                except BaseException as e:
                    errors.append(("simple_raised", f"{obj!r}"[:80] + f": {type(e).__name__}: {str(e)[:160]}"))
            for ch in children(obj):
                stack.append(ch)

    walk(root)
    from_root = counters["elements_walked"]
    root_unresolved, root_errors = list(unresolved), list(errors)
    # every library entry (also those not reachable from the root today)
    for libname in sorted(dialect._library):
        try:
            walk(dialect.ref(libname))
        except BaseException as e:
            errors.append(("library_entry_unusable", f"{libname}: {type(e).__name__}: {str(e)[:120]}"))
    for setname in ("bracket_pairs", "angle_bracket_pairs"):
        try:
            for btype, sref, eref, _ in dialect.bracket_sets(setname):
                for rname in (sref, eref):
                    try:
                        dialect.ref(rname)
                        counters["brackets_resolved"] += 1
                    except BaseException as e:
                        unresolved.append((rname, f"bracket set {setname}: {type(e).__name__}"))
        except BaseException as e:
            errors.append(("bracket_set_missing", f"{setname}: {type(e).__name__}: {str(e)[:100]}"))
    # only what is reachable from the root (plus the bracket sets) is judged; the rest is reported as a count
    counters["unreachable_unresolved_refs"] = len(unresolved) - len(root_unresolved)
    lib_only = len(unresolved) - len(root_unresolved)
    bracket_unres = [u for u in unresolved if u[1].startswith("bracket set")]
    judged = root_unresolved + [u for u in bracket_unres if u not in root_unresolved]
    for rname in sorted({u[0] for u in judged}):
        fails.append({"sig": f"unresolved_reference:{rname}", "detail": {"dialect": name, "ref": rname, "error": next(u[1] for u in judged if u[0] == rname)}})
    unresolved_names = {u[0] for u in unresolved}
    judged_err0 = judged_err = None
    judged_err = root_errors + [e for e in errors if e[0] == "bracket_set_missing" and e not in root_errors]
    # a Ref whose target is unresolved also fails .simple(); that is the same finding, not a second one
    judged_err = [e for e in judged_err if not (e[0] == "simple_raised" and "which was not found in the" in e[1])]
    for kind, msg in sorted(set(judged_err)):
        fails.append({"sig": f"{kind}:{msg.replace('<Ref: ', 'Ref(').split(': ')[0][:70]}", "detail": {"dialect": name, "error": msg}})
    counters["elements_reachable_from_root"] = from_root
    return {
        "status": "fail" if fails else "pass",
        "failures": fails,
        "counters": counters,
        "key": case["id"] if counters["elements_walked"] >= 100 else None,
        "sample": {"dialect": name, **counters},
    }


def alphabet():
    chars = [chr(c) for c in range(0, 0x250)]
    chars += [chr(c) for c in range(0x370, 0x400, 3)] + [chr(c) for c in range(0x2000, 0x2070)] + [chr(c) for c in range(0x3000, 0x3040, 2)]
    chars += [chr(c) for c in range(0xFF00, 0xFF60, 2)] + ["\U0001F600", "\U00010000", "\U000E0001", "﻿", "￼", "�", "퟿"]
    chars += [chr(c) for c in range(0x4E00, 0x4E40, 4)] + [chr(c) for c in range(0x600, 0x640, 3)]
    return chars


HOSTILE60 = list("'\"`[](){}<>$@#:;,.?!%&|^~*/\\-+=_ \t\n\rAa0é") + ["--", "/*", "*/", "$$", "::", "{{", "}}", "{%", "%}", "\x00", "\x1a", " ", "​", "x'", "E'", "N'", "q'", "b'", "r'", "''", '""']


def run_lex(case):
    from sqlfluff.core.parser.lexer import PyLexer
    from sqlfluff.core.templaters.base import TemplatedFile

    name = case["dialect"]
    lexer = PyLexer(dialect=name)
    if case["pairs"]:
        strings = [a + b for a in HOSTILE60 for b in HOSTILE60]
    else:
        strings = alphabet() + ["select " + c + " from t" for c in HOSTILE60]
    counters = {"strings_lexed": 0, "unlexable_tokens": 0}
    fails = []
    for s in strings:
        try:
            tf = TemplatedFile.from_string(s)
            segs, viols = lexer.lex(tf)
        except BaseException as e:
            fails.append({"sig": f"lexer_raised:{type(e).__name__}", "detail": {"dialect": name, "string": s, "err": repr(e)[:200]}})
            break
        counters["strings_lexed"] += 1
        c = {}
        f = structure.check_tokens(tf, segs, viols, c)
        counters["unlexable_tokens"] += c.get("unlexable_tokens", 0)
        if f:
            f[0]["detail"]["dialect"] = name
            f[0]["detail"]["string"] = s
            fails.append(f[0])
            break
    return {
        "status": "fail" if fails else "pass",
        "failures": fails,
        "counters": counters,
        "key": case["id"] if counters["strings_lexed"] >= 100 else None,
        "sample": {"dialect": name, **counters} if name == "ansi" else None,
    }


def run_case(case):
    return run_walk(case) if case["kind"] == "walk" else run_lex(case)
