"""C21 — Rule selection is exact and rules are independent."""

from vfw.core import sf
from vfw.gen.corpus import rng, stratified_sample
from vfw.models import noqa_ref
from vfw.monitors import hooks
from vfw.props import common

PROPERTY = "C21"
LEVEL = "exploration"
RULE = (
    "(a) selection: every rule code, name, group and alias singly plus seeded allow/deny combinations (codes, names, groups, aliases, globs 'L*', '*.keywords', 'AL0?', '[AC]*', overlaps, unknown refs); "
    "expected = union(match(allow)) - union(match(deny)) over the model's own reference map (precedence code>name>group>alias, fnmatch globs); observed = codes instantiated by get_rulepack, codes that "
    "actually entered BaseRule.crawl on a probe file (wrapper), and codes of reported violations; (b) independence (lint mode): for a fixture/mutant/yaml-example file, violations of rule R in an "
    "all-rules run == violations of R run alone, for up to 8 seeded rules per file, and for generated files full of noqa directives that name other rules; distinct = selector pair / (file, rule set); non-trivial = selection non-empty resp. some compared rule reported a violation"
)
ASSUMPTIONS = ["rule metadata comes from Linter.rule_tuples(); matching semantics are the model's own"]
TIMEOUT = {"quick": 400, "thorough": 900}
MIN_NONTRIVIAL = {"quick": 100, "thorough": 1500}
REQUIRED_COUNTERS = ["rulepacks_compared", "independence_rule_pairs"]
PROBE = "SELECT a,b  from tbl AS t WHERE x=1 and Y = 2 ;\nselect A.*, count(*) FROM foo a join bar on a.id = bar.id group by 1\n"

_ctx = {}
_crawled = []


def ctx():
    if not _ctx:
        lnt = sf.make_linter("ansi")
        rt = [tuple(t) for t in lnt.rule_tuples()]
        _ctx["rt"] = rt
        _ctx["map"] = noqa_ref.build_ref_map(rt)
        _ctx["all"] = sorted(t[0] for t in rt)
        from sqlfluff.core.rules.base import BaseRule

        def mk(orig):
            def crawl(self, *a, **k):
                _crawled.append(self.code)
                return orig(self, *a, **k)

            return crawl

        hooks.wrap(BaseRule, "crawl", mk)
    return _ctx


def ref_pool():
    c = ctx()
    codes = [t[0] for t in c["rt"]]
    names = [t[1] for t in c["rt"]]
    groups = sorted({g for t in c["rt"] for g in t[3]})
    aliases = sorted({a for t in c["rt"] for a in t[4]})
    globs = ["L*", "*.keywords", "AL0?", "[AC]*", "LT0[1-3]", "capitalisation.*", "*", "?T01", "L0*", "layout.*", "*.column", "RF*"]
    unknown = ["XX99", "nosuch.rule", "Z*", "lt01"]
    return codes, names, groups, aliases, globs, unknown


def expand(refs, m):
    import fnmatch

    out = set()
    for r in refs:
        if r in m:
            out |= m[r]
        else:
            for k in m:
                if fnmatch.fnmatchcase(k, r):
                    out |= m[k]
    return out


def sel_case(idx):
    """deterministic selector pair for index idx."""
    codes, names, groups, aliases, globs, unknown = ref_pool()
    singles = codes + names + groups + aliases + globs
    if idx < len(singles):
        return [singles[idx]], []
    r = rng("c21", 1, idx)
    pool_all = codes * 2 + names + groups * 3 + aliases + globs * 3 + unknown
    allow = [r.choice(pool_all) for _ in range(r.randint(1, 3))] if r.random() < 0.85 else []
    deny = [r.choice(pool_all) for _ in range(r.randint(0, 2))]
    return allow, deny


def cases(tier, seed):
    sel = [{"id": f"sel:{i}", "kind": "sel", "idx": i, "stratum": "sel"} for i in range(2600)]
    ind = []
    base = common.fx_cases(2500)[::2] + common.mx_cases(1, 2500, start=60)[::4] + common.rc_cases()[::2]
    for c in base:
        c = dict(c)
        c["mode"] = "ind"
        c["id"] = "ind:" + c["id"]
        c["stratum"] = "ind:" + c["stratum"]
        ind.append(c)
    nq = [{"id": f"indnoqa:{i}", "kind": "indnoqa", "idx": i, "stratum": "indnoqa"} for i in range(400)]
    if tier == "quick":
        return stratified_sample(sel, lambda c: c["stratum"], 450, seed) + stratified_sample(ind, lambda c: c["stratum"], 140, seed) + stratified_sample(nq, lambda c: c["stratum"], 120, seed)
    return sel + ind + nq


def run_sel(case):
    c = ctx()
    allow, deny = sel_case(case["idx"])
    m = c["map"]
    exp_allow = expand(allow, m) if allow else set(c["all"])
    expected = sorted(exp_allow - expand(deny, m))
    try:
        lnt = sf.make_linter("ansi", rules=",".join(allow) if allow else None, exclude=",".join(deny) if deny else None, cache=False)
        pack = lnt.get_rulepack()
    except Exception as e:
        # an empty / unknown-only selection may be rejected as a user error: only allowed if the model selects nothing
        if not expected:
            return {"status": "pass", "counters": {"empty_selection_rejected": 1}, "key": None}
        return {"status": "fail", "failures": [{"sig": f"nonempty_selection_rejected:{type(e).__name__}", "detail": {"allow": allow, "deny": deny, "expected": expected[:10], "err": repr(e)[:200]}}], "counters": {}}
    got = sorted(r.code for r in pack.rules)
    fails = []
    if got != expected:
        fails.append({"sig": "rulepack_ne_model", "detail": {"allow": allow, "deny": deny, "extra": sorted(set(got) - set(expected))[:8], "missing": sorted(set(expected) - set(got))[:8]}})
    del _crawled[:]
    try:
        linted = lnt.lint_string(PROBE)
        vcodes = {v.rule_code() for v in linted.get_violations(filter_ignore=False, filter_warning=False)}
    except Exception as e:
        return {"status": "skip", "counters": {"lint_raised": 1}, "detail": repr(e)[:200]}
    crawled = set(_crawled)
    if crawled - set(expected):
        fails.append({"sig": "unselected_rule_ran", "detail": {"allow": allow, "deny": deny, "ran": sorted(crawled - set(expected))[:8]}})
    if set(expected) - crawled:
        fails.append({"sig": "selected_rule_did_not_run", "detail": {"allow": allow, "deny": deny, "not_run": sorted(set(expected) - crawled)[:8]}})
    if vcodes - set(expected) - {"TMP", "PRS", "LXR"}:
        fails.append({"sig": "violation_from_unselected_rule", "detail": {"allow": allow, "deny": deny, "codes": sorted(vcodes - set(expected))}})
    return {
        "status": "fail" if fails else "pass",
        "failures": fails[:2],
        "counters": {"rulepacks_compared": 1, "rules_crawled": len(crawled)},
        "key": f"{allow}|{deny}" if expected else None,
        "sample": {"allow": allow, "deny": deny, "selected": len(expected), "crawled": len(crawled)} if case["idx"] % 60 == 0 else None,
    }


def run_ind(case):
    c = ctx()
    r = common.resolve(case)
    base = sf.make_linter(r["dialect"], r["templater"], sections=r.get("sections"), context=r["context"])
    try:
        all_v = base.lint_string(r["source"]).get_violations(filter_ignore=False, filter_warning=False)
    except Exception as e:
        return {"status": "skip", "counters": {"lint_raised": 1}, "detail": repr(e)[:200]}
    by = {}
    for v in all_v:
        by.setdefault(v.rule_code(), []).append((v.line_no, v.line_pos, v.desc()))
    rr = rng("c21-ind", case["id"])
    fired = sorted(k for k in by if k not in ("TMP", "PRS", "LXR"))
    rr.shuffle(fired)
    chosen = fired[:6] + rr.sample([x for x in c["all"] if x not in by], 2)
    fails = []
    pairs = 0
    for code in chosen:
        one = sf.make_linter(r["dialect"], r["templater"], rules=code, sections=r.get("sections"), context=r["context"], cache=False)
        try:
            vs = one.lint_string(r["source"]).get_violations(filter_ignore=False, filter_warning=False)
        except Exception as e:
            fails.append({"sig": "single_rule_run_raised", "detail": {"rule": code, "err": repr(e)[:200]}})
            continue
        alone = sorted((v.line_no, v.line_pos, v.desc()) for v in vs if v.rule_code() == code)
        pairs += 1
        if alone != sorted(by.get(code, [])):
            fails.append({"sig": f"rule_depends_on_others:{code}", "detail": {"rule": code, "alone": alone[:4], "with_all": sorted(by.get(code, []))[:4], "source": r["source"][:300], "dialect": r["dialect"]}})
    return {
        "status": "fail" if fails else "pass",
        "failures": fails[:2],
        "counters": {"independence_rule_pairs": pairs},
        "key": common.text_key(r) if fired else None,
        "sample": {"source": r["source"][:120], "dialect": r["dialect"], "rules_compared": chosen} if len(r["source"]) < 120 else None,
    }


def run_indnoqa(case):
    """Independence in the presence of noqa directives that name OTHER rules: what rule R reports must not
    depend on whether the rules named in the file's noqa comments are enabled."""
    from vfw.props import C20

    source, forms, _ = C20.gen_e2e(case["idx"])
    full = "LT01,CP01,AL01,LT02"
    try:
        all_v = sf.make_linter("ansi", rules=full).lint_string(source).get_violations(filter_warning=False)
    except Exception as e:
        return {"status": "skip", "counters": {"lint_raised": 1}, "detail": repr(e)[:200]}
    fails = []
    pairs = 0
    for code in ("LT01", "CP01"):
        want = sorted((v.line_no, v.line_pos, v.desc()) for v in all_v if v.rule_code() == code)
        try:
            vs = sf.make_linter("ansi", rules=code, cache=False).lint_string(source).get_violations(filter_warning=False)
        except Exception as e:
            continue
        alone = sorted((v.line_no, v.line_pos, v.desc()) for v in vs if v.rule_code() == code)
        pairs += 1
        if alone != want:
            fails.append({"sig": f"rule_depends_on_others_via_noqa:{code}", "detail": {"source": source, "alone": alone[:5], "with_others": want[:5]}})
    return {"status": "fail" if fails else "pass", "failures": fails[:1], "counters": {"independence_rule_pairs": pairs, "noqa_independence_files": 1},
            "key": case["id"] if any(forms) and all_v else None}


def run_case(case):
    if case["kind"] == "indnoqa":
        ctx()
        return run_indnoqa(case)
    return run_sel(case) if case["kind"] == "sel" else run_ind(case)
