"""C20 — noqa directives suppress exactly the specified violations (model vs IgnoreMask)."""

import itertools

from vfw.core import sf
from vfw.gen.corpus import rng, stratified_sample
from vfw.models import noqa_ref

PROPERTY = "C20"
LEVEL = "exploration"
RULE = (
    "(a) unit boundary, exhaustive small scope: every 3-line file whose lines each carry one of 19 directive forms (none, bare, codes, name, group, glob, alias-glob, PRS, disable/enable of all/one rule, "
    "no-space and double-comment spellings) = 6859 layouts, each driven through the real IgnoreMask.from_source -> ignore_masked_violations -> generate_warnings_for_unused with ALL 512 subsets of "
    "synthetic violations {LT01,CP01,PRS} x lines 1..3 and compared with an independent 60-line interpreter (hidden set two-sided; unused warnings where the statement is unambiguous); "
    "(b) end-to-end: generated multi-statement SQL files with inline/block noqa comments linted with noqa on and with disable_noqa; ground truth = the disable_noqa run (itself compared with the file whose directives are neutralised); "
    "distinct = layout / file hash; non-trivial = at least one directive and one violation interact"
)
ASSUMPTIONS = ["rule metadata (code, name, groups, aliases) is read from Linter.rule_tuples(); the reference map and matching are the model's own", "enable directives' unused-warnings are not judged"]
TIMEOUT = {"quick": 300, "thorough": 900}
MIN_NONTRIVIAL = {"quick": 200, "thorough": 2000}
REQUIRED_COUNTERS = ["hidden_sets_compared"]
EXHAUSTIVE = {"thorough": True}

FORMS = [
    "", "-- noqa", "-- noqa: LT01", "-- noqa: CP01,LT01", "-- noqa: disable=all", "-- noqa: enable=all", "-- noqa: disable=LT01", "-- noqa: enable=LT01",
    "-- noqa: disable=CP01", "-- noqa: PRS", "-- noqa: layout.spacing", "-- noqa: capitalisation", "-- noqa: LT0?", "-- noqa: disable=L0*", "--noqa:LT01",
    "-- note -- noqa: CP01", "-- noqa: enable=CP01", "-- noqa:disable=layout", "-- noqa: CP0[12]",
]
CODES = ("LT01", "CP01", "PRS")
NL = 3


def cases(tier, seed):
    layouts = list(itertools.product(range(len(FORMS)), repeat=NL))
    unit = [{"id": "u:" + ".".join(map(str, l)), "kind": "unit", "layout": list(l), "stratum": "unit"} for l in layouts]
    e2e = [{"id": f"e2e:{i}", "kind": "e2e", "idx": i, "stratum": "e2e"} for i in range(1500)]
    if tier == "quick":
        return stratified_sample(unit, lambda c: c["stratum"], 600, seed) + stratified_sample(e2e, lambda c: c["stratum"], 220, seed)
    return unit + e2e


_ctx = {}


def ctx():
    if not _ctx:
        from sqlfluff.core import Linter
        from sqlfluff.core.errors import SQLBaseError

        lnt = sf.make_linter("ansi")
        _ctx["lnt"] = lnt
        _ctx["rt"] = [tuple(t) for t in lnt.rule_tuples()]
        _ctx["model_map"] = noqa_ref.build_ref_map(_ctx["rt"])
        _ctx["real_map"] = lnt.get_rulepack().reference_map
        d = lnt.config.get("dialect_obj")
        _ctx["inline"] = next(m for m in d.lexer_matchers if m.name == "inline_comment")

        class V(SQLBaseError):
            def __init__(self, code, line):
                super().__init__(line_no=line, line_pos=1, description="synthetic")
                self._c = code

            def rule_code(self):
                return self._c

        _ctx["V"] = V
    return _ctx


def run_unit(case):
    from sqlfluff.core.rules.noqa import IgnoreMask

    c = ctx()
    lines = [("select 1 " + FORMS[f]).rstrip() for f in case["layout"]]
    source = "\n".join(lines) + "\n"
    directives = []
    malformed = 0
    for ln, f in enumerate(case["layout"], 1):
        if FORMS[f]:
            d = noqa_ref.parse_directive(FORMS[f], c["model_map"])
            if d == "malformed":
                malformed += 1
            elif d:
                directives.append((ln, d))
    slots = [(ln, code) for ln in range(1, NL + 1) for code in CODES]
    fails = []
    compared = 0
    interacting = 0
    for mask_bits in range(1 << len(slots)):
        vs = [slots[i] for i in range(len(slots)) if mask_bits >> i & 1]
        mask, pv = IgnoreMask.from_source(source, c["inline"], dict(c["real_map"]))
        if len(pv) != malformed and not fails:
            fails.append({"sig": "malformed_directive_count", "detail": {"source": source, "real": len(pv), "model": malformed}})
        objs = [c["V"](code, ln) for ln, code in vs]
        kept = mask.ignore_masked_violations(objs)
        real_hidden = sorted((o.line_no, o.rule_code()) for o in objs if o not in kept)
        model_hidden = sorted((ln, code) for ln, code in vs if noqa_ref.hidden(directives, ln, code)[0])
        compared += 1
        if model_hidden:
            interacting += 1
        if real_hidden != model_hidden:
            fails.append({"sig": "hidden_set_mismatch", "detail": {"source": source, "violations": vs, "real_hidden": real_hidden, "model_hidden": model_hidden}})
            break
        warned = sorted((w.line_no for w in mask.generate_warnings_for_unused()))
        exp = noqa_ref.unused_expectations(directives, vs)
        for i, must in exp.items():
            ln = directives[i][0]
            if must and ln not in warned:
                fails.append({"sig": "unused_directive_not_warned", "detail": {"source": source, "violations": vs, "line": ln, "warned": warned}})
                break
            if not must and ln in warned:
                fails.append({"sig": "used_directive_warned", "detail": {"source": source, "violations": vs, "line": ln, "warned": warned}})
                break
        if fails:
            break
    return {
        "status": "fail" if fails else "pass",
        "failures": fails[:1],
        "counters": {"hidden_sets_compared": compared, "violation_sets_with_hidden": interacting, "directives": len(directives)},
        "key": case["id"] if directives and interacting else None,
        "sample": {"source": source, "directives": [(ln, d["action"], sorted(d["rules"]) if d["rules"] else None) for ln, d in directives]} if sum(case["layout"]) % 97 == 0 else None,
    }


STMTS = [
    ("select a,b from t", {"LT01"}), ("SELECT a from t", {"CP01"}), ("select a from t", set()), ("SELECT a,b from t", {"LT01", "CP01"}),
    ("select a from t where", {"PRS"}), ("select  a from t", {"LT01"}), ("select a from t WHERE x = 1", {"CP01"}),
]
E2E_FORMS = FORMS + ["/* noqa */", "/* noqa: LT01 */", "/* noqa: disable=all */", "/* noqa: enable=all */", "-- noqa: AL0*", "-- noqa: disable=PRS", "-- noqa: core",
                     "/* noqa: LT0* */", "/* noqa: disable=L* */", "/* noqa: CP0? */", "/*noqa:LT01*/", "/* noqa: capitalisation.* */", "/* noqa: enable=LT0* */", "-- noqa: disable=AL01", "-- noqa: disable=aliasing"]


def gen_e2e(idx):
    r = rng("c20-e2e", 1, idx)
    n = r.randint(2, 6)
    lines, forms = [], []
    for _ in range(n):
        stmt, _ = r.choice(STMTS)
        f = r.choice(E2E_FORMS) if r.random() < 0.6 else ""
        lines.append(stmt + ";" + (" " + f if f else ""))
        forms.append(f)
    mode = r.choice(["on", "on", "on", "off", "subset:CP01", "subset:LT01"])
    return "\n".join(lines) + "\n", forms, mode


def vt(v):
    return (v.line_no, v.line_pos, v.rule_code())


def run_e2e(case):
    c = ctx()
    source, forms, mode = gen_e2e(case["idx"])
    rules = "LT01,CP01,AL01,LT02"
    if mode.startswith("subset:"):
        # only one rule enabled: directives naming OTHER (unselected) rules must hide nothing of it
        rules = mode.split(":", 1)[1]
    truth_l = sf.make_linter("ansi", rules=rules, core={"disable_noqa": True})
    on_l = sf.make_linter("ansi", rules=rules)
    try:
        truth = truth_l.lint_string(source).get_violations(filter_warning=False)
        linted = on_l.lint_string(source)
        rep = linted.get_violations(filter_warning=False)
    except Exception as e:
        return {"status": "skip", "counters": {"lint_raised": 1}, "detail": repr(e)[:200]}
    truth_t = sorted(vt(v) for v in truth)
    rep_t = sorted(vt(v) for v in rep if v.rule_code() != "NOQA" and not ((v.desc() or "").startswith("Malformed 'noqa'")))
    if mode == "off":
        # turning noqa processing off hides nothing: same violations as the file
        # whose directives are neutralised (same length, so positions agree)
        try:
            neutral = truth_l.lint_string(source.replace("noqa", "nqoa")).get_violations(filter_warning=False)
        except Exception as e:
            return {"status": "skip", "counters": {"lint_raised": 1}, "detail": repr(e)[:200]}
        neutral_t = sorted(vt(v) for v in neutral)
        fails = []
        if neutral_t != truth_t:
            fails.append({"sig": "disable_noqa_still_hides", "detail": {"source": source, "with_disable_noqa": truth_t, "neutralised": neutral_t}})
        return {"status": "fail" if fails else "pass", "failures": fails, "counters": {"hidden_sets_compared": 1, "disable_noqa_runs": 1}, "key": case["id"] if truth_t else None}
    directives = []
    model_map = c["model_map"]
    for ln, f in enumerate(forms, 1):
        if f:
            d = noqa_ref.parse_directive(f, model_map)
            if d and d != "malformed":
                directives.append((ln, d))
    # a parse error anywhere means the tree-based mask still exists (file has a tree); truth violations are per line
    exp_hidden = sorted(t for t in truth_t if noqa_ref.hidden(directives, t[0], t[2])[0])
    real_hidden = sorted(set(truth_t) - set(rep_t))
    extra = sorted(set(rep_t) - set(truth_t))
    fails = []
    if extra:
        fails.append({"sig": "violation_only_with_noqa_enabled", "detail": {"source": source, "extra": extra[:4], "mode": mode}})
    if real_hidden != exp_hidden:
        fails.append({"sig": "e2e_hidden_set_mismatch", "detail": {"source": source, "mode": mode, "real_hidden": real_hidden, "model_hidden": exp_hidden, "truth": truth_t}})
    return {
        "status": "fail" if fails else "pass",
        "failures": fails[:1],
        "counters": {"hidden_sets_compared": 1, "e2e_files": 1, "e2e_truth_violations": len(truth_t), "e2e_hidden": len(real_hidden)},
        "key": case["id"] if directives and truth_t else None,
        "sample": {"source": source, "mode": mode, "truth": truth_t, "hidden": real_hidden} if case["idx"] % 40 == 0 else None,
    }


def run_case(case):
    return run_unit(case) if case["kind"] == "unit" else run_e2e(case)
