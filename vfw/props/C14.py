"""C14 — Layout fixes change only whitespace."""

from vfw.gen.corpus import stratified_sample
from vfw.props import common, fixcase

PROPERTY = "C14"
LEVEL = "exploration"
RULE = (
    "case = (sql, dialect, layout config variant) from dialect fixtures <= 3 kB, a seeded mutant of every 2nd and one comment-injected variant (comments / line breaks before brackets, after commas, between tokens) each, the repo's LT* rule yaml examples with their own configs, and 240 generated WITH statements with comments between / after CTEs; fixed with "
    "rules=layout only under 9 layout config variants (comma/operator position, indent unit, tab size, max line length, trailing comments, implicit indents); oracle lexes source and fixed "
    "text with the same dialect: sequence of code-token texts equal, multiset of comment texts equal; distinct = content hash + variant; non-trivial = fix changed the text"
)
ASSUMPTIONS = ["LT05 may move trailing comments (multiset, not sequence, of comments is compared - as the statement says)"]
TIMEOUT = {"quick": 400, "thorough": 900}
MIN_NONTRIVIAL = {"quick": 50, "thorough": 800}
REQUIRED_COUNTERS = ["token_sequences_compared", "files_changed_by_fix"]

VARIANTS = [
    {},
    {"sections": {"layout": {"type": {"comma": {"line_position": "leading"}}}}},
    {"sections": {"layout": {"type": {"binary_operator": {"line_position": "trailing"}, "comparison_operator": {"line_position": "trailing"}}}}},
    {"sections": {"indentation": {"indent_unit": "tab"}}},
    {"sections": {"indentation": {"tab_space_size": 2, "indented_joins": True, "indented_ctes": True}}},
    {"core": {"max_line_length": 40}},
    {"core": {"max_line_length": 0}},
    {"sections": {"indentation": {"trailing_comments": "after", "allow_implicit_indents": True}}},
    {"core": {"max_line_length": 60}, "sections": {"indentation": {"indented_using_on": False, "indented_on_contents": False, "indented_then": False}, "layout": {"type": {"comma": {"spacing_before": "single", "spacing_after": "touch"}}}}},
]


def cte_sql(i):
    """WITH statements in assorted layouts with comments between CTEs, after closing brackets and before the main query
    (added after seed C14-b: LT08 replacing a comment-only line that follows a CTE's closing bracket)."""
    from vfw.gen.corpus import rng

    r = rng("c14-cte", 1, i)
    n = r.randint(2, 4)
    s = r.choice(["with ", "WITH ", "with\n"])
    for k in range(n):
        body = r.choice([f"select {k}", f"\n    select {k}\n", f"\n    select {k} -- inner c{k}\n", f"select {k}, x from t{k}", f"\nselect {k}\n"])
        s += f"{'abcd'[k]} as ({body})"
        if k < n - 1:
            s += r.choice([", ", ",\n", ",\n\n", "\n, ", f",\n-- between {k}\n", ", -- after comma\n", ",\n/* block */\n", f"\n-- before comma {k}\n,"])
    s += r.choice(["\n", "\n\n", "\n-- final query\n", "\n-- line 1\n-- line 2\n", " -- trailing\n", "\n/* block before */\n", " ", "\n    -- indented note\n"])
    s += r.choice(["select * from a", "select * from a cross join b", "select a.x\nfrom a"]) + r.choice(["\n", ""])
    return s


def universe():
    u = []
    for i in range(240):
        d = ("ansi", "postgres", "bigquery", "snowflake")[i % 4]
        u.append({"id": f"lit:cte{i}:{d}|layout#{i % 3 * 4}", "kind": "lit", "source": cte_sql(i), "dialect": d, "stratum": "lit:cte", "rules": "layout", "variant": i % 3 * 4})
    base = common.fx_cases(3000) + common.mx_cases(1, 3000, start=20)[::2] + [c for c in common.rc_cases(("LT",))] + common.cx_cases(1, 3000)
    for i, c in enumerate(base):
        vi = i % len(VARIANTS)
        c = dict(c)
        c["rules"] = "layout"
        c["variant"] = vi
        c["id"] += f"|layout#{vi}"
        c["stratum"] = c["stratum"] + f"|v{vi}"
        u.append(c)
        if c["kind"] == "rc" or i % 5 == 0:  # second variant for a share
            d = dict(c)
            d["variant"] = (vi + 4) % len(VARIANTS)
            d["id"] = d["id"].rsplit("|", 1)[0] + f"|layout#{d['variant']}"
            u.append(d)
    return u


def cases(tier, seed):
    u = universe()
    if tier != "quick":
        return u
    # quick: stratified sample of the corpus part + every generated CTE/comment layout (small and cheap)
    return stratified_sample([c for c in u if c["stratum"] != "lit:cte"], lambda c: c["stratum"], 300, seed) + [c for c in u if c["stratum"] == "lit:cte"]


def run_case(case):
    import collections

    v = VARIANTS[case["variant"]]
    case = dict(case)
    if v.get("sections"):
        case["sections"] = v["sections"]
    if v.get("core"):
        case["core"] = v["core"]
    r, lnt, obs = fixcase.observe(case)
    if lnt is None:
        return {"status": "harness_error", "detail": obs}
    if "raised" in obs or "fix_string_raised" in obs:
        return {"status": "skip", "counters": {"lint_raised": 1}}
    src = r["source"].replace("\r\n", "\n").replace("\r", "\n")
    fixed = obs["fixed"]
    try:
        a = fixcase.lex_classes(lnt, src)
        b = fixcase.lex_classes(lnt, fixed)
    except Exception as e:
        return {"status": "skip", "counters": {"lex_raised": 1}, "detail": repr(e)[:200]}
    code_a = [t for t, c in a if c == "code"]
    code_b = [t for t, c in b if c == "code"]
    com_a = collections.Counter(t for t, c in a if c == "comment")
    com_b = collections.Counter(t for t, c in b if c == "comment")
    fails = []
    if code_a != code_b:
        i = 0
        while i < min(len(code_a), len(code_b)) and code_a[i] == code_b[i]:
            i += 1
        fails.append({"sig": "code_tokens_changed", "detail": {"index": i, "before": code_a[max(0, i - 2) : i + 3], "after": code_b[max(0, i - 2) : i + 3], "source": src[:300], "fixed": fixed[:300]}})
    if com_a != com_b:
        fails.append({"sig": "comments_changed", "detail": {"lost": list((com_a - com_b).items())[:3], "gained": list((com_b - com_a).items())[:3]}})
    changed = bool(obs.get("changed"))
    return {
        "status": "fail" if fails else "pass",
        "failures": fails,
        "counters": {"token_sequences_compared": 1, "code_tokens": len(code_a), "files_changed_by_fix": int(changed)},
        "key": common.text_key(r) + f"|{case['variant']}" if changed else None,
        "sample": {"source": src[:160], "fixed": fixed[:160], "dialect": r["dialect"], "variant": v} if changed and len(src) < 160 else None,
    }
