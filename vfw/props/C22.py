"""C22 — Exit codes reflect only unsuppressed failures (exit-code model vs real CLI processes)."""

from vfw.gen.corpus import short_hash
from vfw.props import cliscen

PROPERTY = "C22"
LEVEL = "exploration"
RULE = (
    "case = generated project (file kinds x warnings= x ignore= x noqa x inline config, see C19) or one of 13 usage/configuration-error scenarios; the real CLI is run in fresh processes: "
    "lint <path>, lint - (stdin), lint --nofail, fix <path>, fix - (stdin), format <path>, and lint/fix on a directory of 2-3 such files (worst per-file expectation); expected exit status comes from an independent model fed by one API run in another fresh process "
    "(violations after ignore+noqa with their warning / fixable / TMP-PRS flags, count of unfiltered TMP/PRS, fix_even_unparsable): lint -> 1 iff some non-warning violation is shown; "
    "fix/format -> 1 iff some shown non-warning violation is a TMP/PRS error or a lint violation that stays unfixed (no fix, or fixing blocked by any TMP/PRS error); usage/config errors -> 2; "
    "distinct = scenario hash; non-trivial = at least one violation exists in the file or the scenario is a usage error"
)
ASSUMPTIONS = ["'remains unfixable' includes violations whose fixes are discarded because a TMP/PRS error blocks fixing (the path route's reading)"]
TIMEOUT = {"quick": 900, "thorough": 1800}
MIN_NONTRIVIAL = {"quick": 25, "thorough": 250}
REQUIRED_COUNTERS = ["exit_codes_compared"]
N = 500

USAGE = [
    (["lint", "f.sql", "--dialect", "nosuchdialect"], None),
    (["fix", "f.sql", "--dialect", "nosuchdialect"], None),
    (["lint", "missing_file.sql"], None),
    (["fix", "missing_file.sql"], None),
    (["format", "missing_file.sql"], None),
    (["lint", "f.sql", "--nosuchoption"], None),
    (["lint", "f.sql", "--format", "nosuchformat"], None),
    (["lint", "f.sql", "--templater", "nosuchtemplater"], None),
    (["lint", "f.sql", "--config", "no_such_config.cfg"], None),
    (["format", "f.sql", "--rules", "LT01"], None),
    (["lint", "f.sql"], {"core": {"dialect": "ansi", "max_line_length": "abc"}}),
    (["lint", "f.sql"], {"core": {"templater": "raw"}}),  # no dialect anywhere
    (["lint", "f.sql"], {"core": {"dialect": "ansi"}, "rules": {"capitalisation.keywords": {"capitalisation_policy": "nosuchpolicy"}}}),
]


def cases(tier, seed):
    import random

    ids = list(range(N))
    random.Random(f"c22:{seed}").shuffle(ids)
    if tier == "quick":
        ids = ids[:60]
    out = [{"id": f"scen:{i}", "kind": "scen", "idx": i} for i in ids]
    out += [{"id": f"multi:{i}", "kind": "multi", "idx": i} for i in ids[: max(24, len(ids) // 4)]]
    out += [{"id": f"usage:{i}", "kind": "usage", "u": i} for i in range(len(USAGE))]
    return out


def expected_exits(m, ignore_templating=False):
    shown = m["shown"]
    # NOTE: with ignore=templating the Jinja templater renders undefined variables instead of failing, so the
    # suppression-free ground truth would report errors that do not exist in the run being judged.
    n_err = m["n_unfiltered_tmp_prs"] if ignore_templating else max(m["n_unfiltered_tmp_prs"], m.get("truth_tmp_prs", 0))
    blocked = n_err > 0 and not m["fix_even_unparsable"]
    lint = 1 if any(not w for _, w, _, _ in shown) else 0
    fix = 0
    for code, warn, fixable, is_tp in shown:
        if warn:
            continue
        if is_tp:
            # a TMP/PRS error fails the run when it blocks fixing
            if not m["fix_even_unparsable"]:
                fix = 1
        elif not fixable or blocked:
            fix = 1
    return lint, fix


def run_usage(case):
    args, cfg = USAGE[case["u"]]
    scen = {"sql": "select a from t\n", "config": cfg or {"core": {"dialect": "ansi"}}, "nested": None, "subdir": "", "tags": []}
    pj = cliscen.Project(scen)
    try:
        rc, out, err = pj.cli(args + ["--nocolor"] if "--nosuchoption" not in args else args)
        fails = []
        # NOSUCHRULE99: an allowlist matching nothing is a configuration error
        if rc != 2:
            fails.append({"sig": f"usage_error_exit_{rc}", "detail": {"args": args, "config": cfg, "stdout": out[-300:], "stderr": err[-300:]}})
        return {"status": "fail" if fails else "pass", "failures": fails, "counters": {"exit_codes_compared": 1, "usage_scenarios": 1}, "key": case["id"], "sample": {"args": args, "config": cfg, "exit": rc}}
    finally:
        pj.close()


def run_multi(case):
    """Several files in one directory: the run's exit status is the worst of the per-file expectations."""
    base = cliscen.gen(case["idx"])
    base["subdir"] = ""
    base["nested"] = None
    base["config"]["core"].pop("fix_even_unparsable", None)
    extra = {}
    for j, name in enumerate(("b.sql", "c.sql")[: 1 + case["idx"] % 2]):
        extra[name] = cliscen.gen(case["idx"] * 7 + j + 1)["sql"] if base["config"]["core"].get("templater") == "jinja" else cliscen.gen(case["idx"] * 7 + j + 1)["sql"].replace("{{", "(").replace("}}", ")").replace("{%", "").replace("%}", "")
    if case["idx"] % 2 == 0:
        # directed layout: the alphabetically first file has only a *suppressed* parse error,
        # later files parse cleanly and carry fixable violations
        from vfw.gen.corpus import rng as _rng

        r = _rng("c22-multi", case["idx"])
        mode = r.choice(["noqa", "ignore", "warnings", "warnings_all"])
        core = {"dialect": "ansi", "rules": r.choice(["LT01,CP01", "LT01,CP01,LT12", "core"]), "templater": "raw"}
        first = "select a from t where;" + (" -- noqa: PRS" if mode == "noqa" else "") + "\n"
        if mode == "ignore":
            core["ignore"] = "parsing"
        if mode == "warnings":
            core["warnings"] = "PRS"
        if mode == "warnings_all":  # every violation of the run is a warning: the run must exit 0, serial and multi-process
            core["warnings"] = "PRS,LT01,CP01,LT12,LT02,AL01,CP02,RF02"
            core["rules"] = "LT01,CP01,LT12"
        base = {"sql": r.choice(["SELECT a,b from t;\n", "select  a from t;\n", "select a from t;\n"]), "config": {"core": core}, "nested": None, "subdir": "", "tags": ["fixable"], "inline": False}
        extra = {"a_first.sql": first}
        if r.random() < 0.5:
            extra["z_last.sql"] = r.choice(["select a from t where; -- noqa: PRS\n", "SELECT c,d from u;\n"])
    base["extra_files"] = extra
    pj = cliscen.Project(base)
    fails = []
    try:
        exp_l, exp_f = 0, 0
        models = {}
        for rel in [pj.rel] + sorted(extra):
            m = pj.api("model", rel=rel)
            if "shown" not in m:
                return {"status": "skip", "counters": {"model_run_failed": 1}, "detail": m}
            models[rel] = m
            l, f = expected_exits(m, "templating" in (base["config"]["core"].get("ignore") or ""))
            exp_l, exp_f = max(exp_l, l), max(exp_f, f)
        rc_l = pj.cli(["lint", ".", "--nocolor"])[0]
        # same run through the multi-process runner (violations cross a process boundary before they are counted)
        rc_lp = pj.cli(["lint", ".", "--nocolor", "--processes", "2"])[0]
        rc_f = pj.cli(["fix", ".", "--nocolor"])[0]
        counters = {"exit_codes_compared": 3, "multi_file_runs": 1}
        if rc_lp != exp_l:
            fails.append({"sig": f"multi_lint_processes2_exit_{rc_lp}_expected_{exp_l}", "detail": {"models": models, "files": {pj.rel: base["sql"], **extra}, "config": base["config"], "serial_exit": rc_l}})
        if rc_l != exp_l:
            fails.append({"sig": f"multi_lint_exit_{rc_l}_expected_{exp_l}", "detail": {"models": models, "files": {pj.rel: base["sql"], **extra}, "config": base["config"]}})
        if rc_f != exp_f:
            fails.append({"sig": f"multi_fix_exit_{rc_f}_expected_{exp_f}", "detail": {"models": models, "files": {pj.rel: base["sql"], **extra}, "config": base["config"]}})
        return {"status": "fail" if fails else "pass", "failures": fails, "counters": counters, "key": case["id"] if any(m["shown"] or m["n_unfiltered_tmp_prs"] for m in models.values()) else None,
                "sample": {"files": list(models), "expected": [exp_l, exp_f], "observed": [rc_l, rc_f]} if case["idx"] % 20 == 0 else None}
    finally:
        pj.close()


def run_case(case):
    if case["kind"] == "usage":
        return run_usage(case)
    if case["kind"] == "multi":
        return run_multi(case)
    scen = cliscen.gen(case["idx"])
    pj = cliscen.Project(scen)
    fails = []
    counters = {"exit_codes_compared": 0}
    try:
        m = pj.api("model")
        if "shown" not in m:
            return {"status": "skip", "counters": {"model_run_failed": 1}, "detail": m}
        ig_t = "templating" in (scen["config"]["core"].get("ignore") or "")
        e_lint, e_fix = expected_exits(m, ig_t)
        sql = scen["sql"]
        obs = {}
        obs["lint_path"] = pj.cli(["lint", pj.rel, "--nocolor"])[0]
        obs["lint_stdin"] = pj.cli(["lint", "-", "--stdin-filename", pj.rel, "--nocolor"], stdin=sql)[0]
        obs["lint_nofail"] = pj.cli(["lint", pj.rel, "--nofail", "--nocolor"])[0]
        obs["fix_path"] = pj.cli(["fix", pj.rel, "--nocolor"])[0]
        pj.write()
        obs["fix_stdin"] = pj.cli(["fix", "-", "--stdin-filename", pj.rel, "--nocolor"], stdin=sql)[0]
        want = {"lint_path": e_lint, "lint_stdin": e_lint, "lint_nofail": 0, "fix_path": e_fix, "fix_stdin": e_fix}
        if case["idx"] % 3 == 0:
            mf = pj.api("model_format")
            if "shown" in mf:
                mf["fix_even_unparsable"] = False  # `sqlfluff format` never fixes unparsable files
                pj.write()
                obs["format_path"] = pj.cli(["format", pj.rel, "--nocolor"])[0]
                want["format_path"] = expected_exits(mf, ig_t)[1]
        for k, w in want.items():
            counters["exit_codes_compared"] += 1
            if obs[k] != w:
                fails.append({"sig": f"{k}_exit_{obs[k]}_expected_{w}", "detail": {"model": m, "scenario": scen, "observed": obs}})
        classes = []
        if set(scen["tags"]) & {"prs", "tmp", "tmp_fatal"}:
            classes.append("scen.has_tmp_or_prs_error")
        return {
            "status": "fail" if fails else "pass",
            "failures": fails,
            "classes": classes,
            "counters": counters,
            "key": short_hash(repr(scen)) if m["shown"] or m["n_unfiltered_tmp_prs"] else None,
            "sample": {"sql": sql, "config": scen["config"]["core"], "expected": want, "observed": obs} if case["idx"] % 25 == 0 else None,
        }
    finally:
        pj.close()
