"""C15 — Capitalisation fixes change only letter case."""

from vfw.gen.corpus import stratified_sample
from vfw.props import common, fixcase

PROPERTY = "C15"
LEVEL = "exploration"
RULE = (
    "case = (sql, dialect, policy bundle) from dialect fixtures <= 4 kB, one seeded mutant each, the repo's CP* yaml examples with their own configs and a fixed list of non-ASCII identifier "
    "snippets; fixed with rules=capitalisation under 7 policy bundles (consistent/upper/lower/capitalise/pascal/snake/camel); oracle lexes source and fixed text: same number of tokens, "
    "each token identical or equal under casefold() and neither quoted, a string literal, a comment nor whitespace (for the snake policy only: equal after also removing '_'); "
    "distinct = content hash + bundle; non-trivial = fix changed the text"
)
ASSUMPTIONS = ["the 'snake' policy's documented insertion of '_' is not counted as a change of text"]
TIMEOUT = {"quick": 400, "thorough": 900}
MIN_NONTRIVIAL = {"quick": 50, "thorough": 800}
REQUIRED_COUNTERS = ["token_sequences_compared", "files_changed_by_fix"]


def _b(kw, ident, fn, lit, typ):
    return {"sections": {"rules": {
        "capitalisation.keywords": {"capitalisation_policy": kw},
        "capitalisation.identifiers": {"extended_capitalisation_policy": ident},
        "capitalisation.functions": {"extended_capitalisation_policy": fn},
        "capitalisation.literals": {"capitalisation_policy": lit},
        "capitalisation.types": {"extended_capitalisation_policy": typ},
    }}}


BUNDLES = [
    {},
    _b("upper", "upper", "upper", "upper", "upper"),
    _b("lower", "lower", "lower", "lower", "lower"),
    _b("capitalise", "capitalise", "capitalise", "capitalise", "capitalise"),
    _b("upper", "pascal", "pascal", "lower", "pascal"),
    _b("lower", "snake", "snake", "upper", "snake"),
    _b("consistent", "camel", "camel", "consistent", "camel"),
]
SNIPPETS = [
    "SELECT Straße, straße FROM T", "select İd, id, ID from t", "SELECT ǅabc, ǆabc FROM x", "select Ünïcode, ünïcode from T", "SELECT \"Quoted\", quoted, QUOTED FROM t",
    "select 'Str', str, STR from t -- Comment Here", "SELECT a AS Foo, b as fOO FROM t /* Block Comment */", "select Count(*), COUNT(a), count(b) from T",
    "SELECT CAST(a AS Int), cast(b as VARCHAR(10)) FROM t", "select TRUE, false, Null, nULL from t", "SELECT `Tick`, [Brack], tick FROM t", "select myCol, my_col, MyCol, MY_COL from t",
    "SELECT a.Foo, A.foo, a.FOO FROM a", "select e'Esc', E'esc', x'AB', X'ab' from t", "Select Current_Date, CURRENT_TIMESTAMP, current_time", "SELECT $1, :Param, @Var, ?", "select 1E5, 1e5, 0xFF, 0Xff",
    'create table t (a int, b "MySchema"."MyType", c "Mixed Case")', 'select a::"MyType", b::"myschema"."MyType" from t', 'select cast(a as "MyType") from t',
    "create table t (a [dbo].[MyType], b [MyType])", "select cast(a as `MyType`) from t", 'create table "T1" ("Col A" Int, "colB" "Custom_Type")',
    "select a double /* Keep Me */ precision from t", "create table t (a Double Precision -- Keep Me\n, b INT)", "select `myFunc`(a), \"MyFunc\"(b) from t",
]


def universe():
    u = []
    base = common.fx_cases(4000) + common.mx_cases(1, 4000, start=30) + [c for c in common.rc_cases(("CP",))]
    for i, s in enumerate(SNIPPETS):
        for d in ("ansi", "postgres", "tsql", "bigquery", "mysql", "snowflake"):
            base.append({"id": f"lit:cp{i}:{d}", "kind": "lit", "source": s + "\n", "dialect": d, "stratum": "lit"})
    for i, c in enumerate(base):
        bi = i % len(BUNDLES)
        c = dict(c)
        c["rules"] = "capitalisation"
        c["bundle"] = bi
        c["id"] += f"|cp#{bi}"
        c["stratum"] = c["stratum"] + f"|b{bi}"
        u.append(c)
        if c["kind"] in ("rc", "lit") or i % 5 == 0:
            d = dict(c)
            d["bundle"] = (bi + 3) % len(BUNDLES)
            d["id"] = d["id"].rsplit("|", 1)[0] + f"|cp#{d['bundle']}"
            u.append(d)
    return u


def cases(tier, seed):
    u = universe()
    if tier != "quick":
        return u
    # quick: stratified sample + every hand-written snippet (tiny, cheap, aimed at quoted / non-ASCII tokens)
    return stratified_sample([c for c in u if c["kind"] != "lit"], lambda c: c["stratum"], 300, seed) + [c for c in u if c["kind"] == "lit"]


QUOTE_START = ("'", '"', "`", "[", "$$")


def run_case(case):
    b = BUNDLES[case["bundle"]]
    case = dict(case)
    if b.get("sections"):
        case["sections"] = b["sections"]
    r, lnt, obs = fixcase.observe(case)
    if lnt is None:
        return {"status": "harness_error", "detail": obs}
    if "raised" in obs or "fix_string_raised" in obs:
        return {"status": "skip", "counters": {"lint_raised": 1}}
    src = r["source"].replace("\r\n", "\n").replace("\r", "\n")
    fixed = obs["fixed"]
    snake = case["bundle"] == 5
    try:
        a = fixcase.lex_classes(lnt, src)
        bb = fixcase.lex_classes(lnt, fixed)
    except Exception as e:
        return {"status": "skip", "counters": {"lex_raised": 1}, "detail": repr(e)[:200]}
    fails = []
    if len(a) != len(bb) and not snake:
        fails.append({"sig": "token_count_changed", "detail": {"before": len(a), "after": len(bb), "source": src[:300], "fixed": fixed[:300]}})
    elif snake and fixed.casefold().replace("_", "") != src.casefold().replace("_", ""):
        fails.append({"sig": "text_changed_beyond_case", "detail": {"source": src[:300], "fixed": fixed[:300]}})
    elif not snake:
        for i, ((ta, ca), (tb, cb)) in enumerate(zip(a, bb)):
            if ta == tb:
                continue
            if ta.casefold() != tb.casefold():
                fails.append({"sig": "text_changed_beyond_case", "detail": {"index": i, "before": ta[:60], "after": tb[:60]}})
                break
            if ca != "code" or ta.startswith(QUOTE_START) or (len(ta) > 1 and ta[1:2] in ("'", '"') and ta[0].isalpha()):
                fails.append({"sig": "case_changed_in_protected_token", "detail": {"index": i, "before": ta[:60], "after": tb[:60], "class": ca}})
                break
    changed = bool(obs.get("changed"))
    return {
        "status": "fail" if fails else "pass",
        "failures": fails,
        "counters": {"token_sequences_compared": 1, "files_changed_by_fix": int(changed)},
        "key": common.text_key(r) + f"|{case['bundle']}" if changed else None,
        "sample": {"source": src[:160], "fixed": fixed[:160], "dialect": r["dialect"], "bundle": case["bundle"]} if changed and len(src) < 160 else None,
    }
