"""Shared fix-mode workload (C05, C12, C13, C17, C14, C15).

One case = (source, dialect, templater/context, rule selection, extra config).
``observe`` runs the real ``Linter.lint_string(fix=True)`` and returns the
observations the per-property oracles need.
"""

from __future__ import annotations

from vfw.core import sf
from vfw.monitors import hooks
from vfw.props import common

FORMAT_RULES = (
    "capitalisation,layout,ambiguous.union,convention.not_equal,convention.coalesce,"
    "convention.select_trailing_comma,convention.is_null,jinja.padding,structure.distinct"
)
RULESETS = {"all": None, "format": FORMAT_RULES, "layout": "layout", "capitalisation": "capitalisation", "core": "core"}

_critical = {"n": 0, "installed": False}


def install_rule_monitor():
    """M-RULE: count entries into the exception handler of BaseRule.crawl."""
    if _critical["installed"]:
        return
    from sqlfluff.core.rules.base import BaseRule

    def make(orig):
        def _log_critical_errors(error):
            _critical["n"] += 1
            _critical["last"] = repr(error)[:300]
            return orig(error)

        return _log_critical_errors

    hooks.wrap(BaseRule, "_log_critical_errors", make)
    _critical["installed"] = True


def build_linter(case, r):
    rs = case.get("rules", "all")
    rules = RULESETS.get(rs, rs)
    sections = dict(r.get("sections") or {})
    extra = case.get("sections") or {}
    for k, v in extra.items():
        if isinstance(v, dict) and isinstance(sections.get(k), dict):
            merged = dict(sections[k])
            merged.update(v)
            sections[k] = merged
        else:
            sections[k] = v
    core = dict(sections.pop("core", {}) or {})
    core.update(case.get("core") or {})
    if rs == "own":
        rules = r.get("rule") or None
    core.pop("rules", None)
    return sf.make_linter(r["dialect"], r["templater"], rules=rules, core=core or None, sections=sections or None, context=r["context"])


def lex_classes(lnt, text):
    """[(raw, coarse class)] from lexing ``text`` with the linter's config."""
    from sqlfluff.core.parser.lexer import PyLexer

    segs, _ = PyLexer(config=lnt.config).lex(text)
    return [(s.raw, coarse(s)) for s in segs if s.raw != ""]


def coarse(seg) -> str:
    if seg.is_type("whitespace"):
        return "whitespace"
    if seg.is_type("newline"):
        return "newline"
    if seg.is_type("comment"):
        return "comment"
    return "code"


def err_kinds(linted_or_viols):
    from sqlfluff.core.errors import SQLLexError, SQLParseError, SQLTemplaterError

    viols = linted_or_viols
    out = {"TMP": 0, "LXR": 0, "PRS": 0}
    for v in viols:
        if isinstance(v, SQLTemplaterError):
            out["TMP"] += 1
        elif isinstance(v, SQLLexError):
            out["LXR"] += 1
        elif isinstance(v, SQLParseError):
            out["PRS"] += 1
    return out


def observe(case, second_pass: bool = False):
    """Run fix; return (r, lnt, obs) or (r, None, {'raised': ...})."""
    install_rule_monitor()
    r = common.resolve(case)
    try:
        lnt = build_linter(case, r)
    except Exception as e:
        return r, None, {"config_error": repr(e)[:300]}
    _critical["n"] = 0
    obs = {}
    import logging

    class _H(logging.Handler):
        n = 0

        def emit(self, record):
            try:
                if "would result in an unparsable file" in record.getMessage():
                    _H.n += 1
            except Exception:
                pass

    _H.n = 0
    _h = _H(level=logging.WARNING)
    _lg = logging.getLogger("sqlfluff.linter")
    _lg.addHandler(_h)
    try:
        try:
            linted = lnt.lint_string(r["source"], fname="<string>", fix=True)
        finally:
            _lg.removeHandler(_h)
            obs["validation_rejections"] = _H.n
    except Exception as e:
        obs["raised"] = f"{type(e).__name__}: {str(e)[:300]}"
        return r, lnt, obs
    obs["linted"] = linted
    obs["critical"] = _critical["n"]
    obs["critical_last"] = _critical.get("last")
    obs["violations"] = linted.get_violations(filter_ignore=False, filter_warning=False)
    obs["src_errs"] = err_kinds(obs["violations"])
    try:
        fixed, ok = linted.fix_string()
    except Exception as e:
        obs["fix_string_raised"] = f"{type(e).__name__}: {str(e)[:300]}"
        return r, lnt, obs
    obs["fixed"] = fixed
    obs["changed"] = fixed != r["source"].replace("\r\n", "\n").replace("\r", "\n")
    if second_pass:
        _c = _critical["n"]
        try:
            linted2 = lnt.lint_string(fixed, fname="<string>", fix=True)
            fixed2, _ = linted2.fix_string()
            obs["fixed2"] = fixed2
            obs["pass2_rules"] = sorted({v.rule_code() for v in linted2.get_violations(fixable=True)})
            obs["pass2_errs"] = err_kinds(linted2.get_violations(filter_ignore=False, filter_warning=False))
        except Exception as e:
            obs["pass2_raised"] = f"{type(e).__name__}: {str(e)[:300]}"
        obs["critical"] = max(obs["critical"], _critical["n"])
    return r, lnt, obs


def base_universe(fx_bytes=4000, mx=1, rulesets=("all", "format"), rc_rulesets=("all",), jj=0, dialects=None, cx=1, feu=True):
    u = []
    if cx:
        for i, c in enumerate(common.cx_cases(cx, fx_bytes, dialects)):
            if i % 2:
                continue
            c = dict(c)
            c["rules"] = "all" if i % 4 else "layout"
            c["id"] += f"|rules={c['rules']}"
            c["stratum"] += f"|{c['rules']}"
            u.append(c)
    # quoting sweep: literals whose body contains / ends in the other quote character, raw / bytes prefixes,
    # triple quotes, doubled and backslash escapes - inputs on which a quote-style rewrite can stop lexing
    QS = [
        "SELECT r\'\'\'Here\'s a \"\'\'\' AS a", "SELECT \'\'\'a\"\'\'\' AS a, \"b\" AS c", "SELECT \"it\'s\" AS a, \'x\' AS b", "SELECT \'a\'\'b\' AS a, \"c\"\"d\" AS b",
        "SELECT r\"a\\\"b\" AS a, r\'c\' AS d", "SELECT b\'ab\' AS a, B\"cd\" AS b, rb\'x\"\' AS c", "SELECT \"\"\"tri \'q\' \"\"\" AS a, \'x\' AS b", "SELECT \'x\' AS a, r\"\"\"ends with \'\"\"\" AS b",
        "SELECT \'\' AS e, \"\" AS f, \'\\\\\' AS g", "SELECT \"a\" AS a, \'b\"\' AS b, \"c\'\" AS c", "SELECT \'x\' AS a WHERE b = \"y\'s\" AND c = R\'\'\'z\"\'\'\'",
    ]
    for d in ("bigquery", "mysql", "sparksql", "databricks", "hive", "ansi", "postgres"):
        for i, q in enumerate(QS):
            for pref in ("", "consistent", "double_quotes", "single_quotes"):
                c = {"id": f"qs:{d}:{i}:{pref or 'dflt'}|rules=all", "kind": "lit", "source": q + "\n", "dialect": d, "rules": "all", "stratum": f"qs:{d}"}
                if pref:
                    c["sections"] = {"rules": {"convention.quoted_literals": {"preferred_quoted_literal_style": pref}}}
                u.append(c)
    # width sweep: lines whose length straddles max_line_length once another rule has inserted tokens
    # (implicit alias -> AS, JOIN -> INNER JOIN, ...): interplay of measuring and re-breaking rules
    for n in range(50, 80):
        for t, tpl in enumerate((
            "SELECT\n    c + 1 AS d,\n    {A} + bbbbbb xx\nFROM tbl\n",
            "SELECT {A} AS x, b yy FROM tbl t JOIN other u ON t.id = u.id\n",
            "SELECT\n    a,\n    {A} zz\nFROM tbl t1\nJOIN u ON t1.id = u.id\nWHERE {A} > 1\n",
        )):
            u.append({"id": f"ws:{t}:{n}|rules=all", "kind": "lit", "source": tpl.replace("{A}", "a" * n), "dialect": "ansi", "rules": "all", "stratum": f"ws:{t}"})
    if feu:
        # fix_even_unparsable switches the whole-file validation of fixes off: parsable inputs must stay parsable
        for i, c in enumerate(common.fx_cases(fx_bytes, dialects)):
            if i % 6 and c["dialect"] != "bigquery":
                continue
            c = dict(c)
            c["rules"] = "all"
            c["core"] = {"fix_even_unparsable": True}
            c["id"] += "|rules=all|feu"
            c["stratum"] += "|feu"
            u.append(c)
    for rs in rulesets:
        for i, c in enumerate(common.fx_cases(fx_bytes, dialects)):
            if rs != "all" and i % 2:
                continue
            c = dict(c)
            c["rules"] = rs
            c["id"] += f"|rules={rs}"
            c["stratum"] += f"|{rs}"
            u.append(c)
    if mx:
        for i, c in enumerate(common.mx_cases(mx, fx_bytes, dialects, start=10)):
            if i % 2 == 0:
                continue
            c = dict(c)
            c["rules"] = "all"
            c["id"] += "|rules=all"
            u.append(c)
    for rs in rc_rulesets:
        for c in common.rc_cases():
            c = dict(c)
            c["rules"] = rs
            c["id"] += f"|rules={rs}"
            c["stratum"] += f"|{rs}"
            u.append(c)
    if jj:
        for c in common.jj_cases(jj, "lintable", ("ansi", "postgres", "tsql", "bigquery")):
            c = dict(c)
            c["rules"] = "all"
            c["id"] += "|rules=all"
            u.append(c)
    return u
