"""C04 — Parse, lint and fix never crash (exception boundary + log listener)."""

import logging
import os
import subprocess
import tempfile

from vfw.core import pool, sf
from vfw.gen.corpus import DIALECTS, stratified_sample
from vfw.props import common

PROPERTY = "C04"
LEVEL = "exploration"
RULE = (
    "case = (input, dialect, templater, limits, entry point); inputs: hostile strings x 28 dialects, deep bracket nests (40..3000) and long token lists against max_parse_depth in {default, 5, 60} "
    "and max_parse_nodes in {default, 50}, seeded mutants of fixtures, generated hostile Jinja / python-format / placeholder templates incl. invalid ones, Jinja templates whose unreached (guarded) branch raises ValueError/ZeroDivisionError/TypeError when forced; entry points: Linter.parse_string, "
    "Linter.lint_string(fix=False/True), Linter.lint_paths on a real file (listening on the sqlfluff.linter logger for the runner's 'Unable to lint' funnel), sqlfluff.lint/fix/parse API, and the real "
    "CLI on stdin (exit status must be 0/1 with no traceback); oracle: no exception other than the documented APIParsingError of api.parse; distinct = content hash + entry point; non-trivial = input non-empty and the entry point returned a result object"
)
ASSUMPTIONS = ["sqlfluff.parse raising APIParsingError on unparsable input is documented behaviour, not a crash"]
TIMEOUT = {"quick": 600, "thorough": 1200}
MIN_NONTRIVIAL = {"quick": 300, "thorough": 3000}
REQUIRED_COUNTERS = ["entry_point_calls"]
MODES = ("parse", "lint", "fix", "api_lint", "api_fix", "api_parse", "paths", "cli")
FOUR = ("ansi", "postgres", "tsql", "bigquery")


def nest_cases():
    out = []
    for d in ("ansi", "postgres", "tsql", "snowflake", "bigquery", "mysql"):
        for depth in (40, 120, 260, 700, 3000):
            for shape in ("paren", "case", "subq", "unbalanced"):
                for lim in ({}, {"max_parse_depth": 5}, {"max_parse_depth": 60}):
                    if depth >= 700 and shape in ("case", "subq"):
                        continue
                    cid = f"nest:{d}:{shape}:{depth}:{lim.get('max_parse_depth', 'dflt')}"
                    out.append({"id": cid, "kind": "nest", "dialect": d, "shape": shape, "depth": depth, "core": lim, "stratum": f"nest:{shape}"})
        for n in (60, 400, 3000, 30000):
            for lim in ({}, {"max_parse_nodes": 50}):
                out.append({"id": f"many:{d}:{n}:{lim.get('max_parse_nodes', 'dflt')}", "kind": "many", "dialect": d, "n": n, "core": lim, "stratum": "many"})
    return out


def nest_source(case):
    n = case.get("depth", 0)
    if case["kind"] == "many":
        return "select " + ", ".join(f"c{i}" for i in range(case["n"])) + " from t\n"
    s = case["shape"]
    if s == "paren":
        return "select " + "(" * n + "1" + ")" * n + "\n"
    if s == "case":
        return "select " + "case when a then " * n + "1" + " end" * n + " from t\n"
    if s == "subq":
        return "select * from (" * n + "select 1" + ")" * n + "\n"
    return "select " + "(" * n + "1" + ")" * (n // 2) + "\n"


def universe():
    u = common.hs_cases() + common.mx_cases(2, 5000, start=50) + nest_cases()
    u += common.jj_cases(2500, "hostile", FOUR) + common.py_cases(1200) + common.ph_cases(600)
    u += common.jj_cases(720, "guarded", ("ansi",))
    out = []
    for i, c in enumerate(u):
        c = dict(c)
        m = MODES[i % len(MODES)] if c["kind"] not in ("nest", "many") else ("parse", "lint", "fix")[i % 3]
        if m == "cli" and i % 3:
            m = "fix"
        if c["kind"] in ("jj", "py", "ph") and m.startswith("api"):
            m = "fix" if i % 2 else "lint"
        c["mode"] = m
        c["id"] += f"|{m}"
        c["stratum"] = c["stratum"] + f"|{m}"
        out.append(c)
    return out


def cases(tier, seed):
    return stratified_sample(universe(), lambda c: c["stratum"], 2200 if tier == "quick" else 0, seed)


class _Listen(logging.Handler):
    def __init__(self):
        super().__init__(level=logging.WARNING)
        self.msgs = []

    def emit(self, record):
        try:
            m = record.getMessage()
        except Exception:
            m = str(record.msg)
        if "Unable to lint" in m or "internal error" in m:
            self.msgs.append(m[:300])


def run_case(case):
    import sqlfluff
    from sqlfluff.api.simple import APIParsingError

    if case["kind"] in ("nest", "many"):
        r = {"source": nest_source(case), "dialect": case["dialect"], "templater": "raw", "context": None, "features": []}
    else:
        r = common.resolve(case)
    src = r["source"]
    mode = case["mode"]
    core = case.get("core") or None
    classes = set()
    feats = set(r.get("features") or [])
    if "reached_raiser" in feats:
        classes.add("jinja.reached_raiser")
    if "positional" in feats:
        classes.add("py.positional_field")
    if {"dotted_spaced_spec", "spaced_spec"} & feats:
        classes.add("py.spaced_format_spec")
    counters = {"entry_point_calls": 1}
    fails = []
    result = None
    try:
        if mode in ("parse", "lint", "fix", "paths"):
            lnt = sf.make_linter(r["dialect"], r["templater"], context=r["context"], core=core)
            if mode == "parse":
                result = lnt.parse_string(src)
            elif mode == "lint":
                result = lnt.lint_string(src, fix=False)
            elif mode == "fix":
                result = lnt.lint_string(src, fix=True)
                if result.templated_file is not None:  # fix_string documents this precondition
                    result.fix_string()
            else:
                h = _Listen()
                lg = logging.getLogger("sqlfluff.linter")
                lg.addHandler(h)
                d = tempfile.mkdtemp(prefix="vfw_c04_")
                try:
                    p = os.path.join(d, "f.sql")
                    sf.write_ini(d, sf.config_dict(r["dialect"], r["templater"], context=r["context"], core=core))
                    from sqlfluff.core import FluffConfig, Linter

                    lnt = Linter(config=FluffConfig.from_path(d))
                    with open(p, "w", encoding="utf-8", newline="") as f:
                        f.write(src)
                    result = lnt.lint_paths((p,), fix=bool(case.get("k", 0) % 2), ignore_files=False, processes=1)
                finally:
                    lg.removeHandler(h)
                    import shutil

                    shutil.rmtree(d, ignore_errors=True)
                if h.msgs:
                    fails.append({"sig": "runner_funnel_internal_error", "detail": {"log": h.msgs[:2], "source": src[:300]}})
        elif mode == "api_lint":
            result = sqlfluff.lint(src, dialect=r["dialect"])
        elif mode == "api_fix":
            result = sqlfluff.fix(src, dialect=r["dialect"])
        elif mode == "api_parse":
            try:
                result = sqlfluff.parse(src, dialect=r["dialect"])
            except APIParsingError:
                result = "APIParsingError"
                counters["api_parsing_error"] = 1
        elif mode == "cli":
            env = pool.worker_env()
            pr = subprocess.run([pool.PYTHON, "-m", "sqlfluff", "lint", "-", "--dialect", r["dialect"], "--nocolor"], input=src.encode("utf-8", "surrogatepass"), capture_output=True, timeout=400, env=env)
            result = pr.returncode
            err = pr.stderr.decode("utf-8", "replace")
            if pr.returncode not in (0, 1) or "Traceback (most recent call last)" in err:
                fails.append({"sig": f"cli_crash:rc={pr.returncode}", "detail": {"stderr": err[-600:], "source": src[:300]}})
    except Exception as e:
        import traceback

        from sqlfluff.core.errors import SQLFluffUserError

        if isinstance(e, SQLFluffUserError) or (isinstance(e, KeyError) and "Unknown dialect" in str(e)):
            # the input's own inline '-- sqlfluff:' directive asks for an invalid configuration: a user error, reported as such
            return {"status": "skip", "counters": {"user_config_error": 1}, "detail": repr(e)[:200]}

        tb = traceback.extract_tb(e.__traceback__)
        where = next((f"{os.path.basename(fr.filename)}:{fr.name}" for fr in reversed(tb) if "sqlfluff" in fr.filename), "?")
        fails.append({"sig": f"raised:{type(e).__name__}@{where}", "detail": {"err": repr(e)[:300], "mode": mode, "source": src[:400], "dialect": r["dialect"]}})
    return {
        "status": "fail" if fails else "pass",
        "failures": fails,
        "classes": sorted(classes),
        "counters": counters,
        "key": common.short_hash(r["dialect"] + r["templater"] + src + mode + repr(core)) if src and result is not None else None,
        "sample": {"source": src[:160], "dialect": r["dialect"], "templater": r["templater"], "mode": mode, "limits": core} if case["kind"] in ("nest", "jj") and len(src) < 400 else None,
    }
