"""C27 — Configuration precedence and isolation (model of precedence vs observable behaviour)."""

import json
import os
import shutil
import subprocess
import tempfile

from vfw.core import pool, sf
from vfw.gen.corpus import rng

PROPERTY = "C27"
LEVEL = "exploration"
RULE = (
    "case = generated configuration hierarchy: user config (~/.sqlfluff), project root .sqlfluff (cwd), sub-directory config (.sqlfluff or pyproject.toml), deeper .sqlfluff next to the file, an extra "
    "--config file, command-line overrides (--rules / --exclude-rules) and inline '-- sqlfluff:' directives, each setting a random subset of behaviour-observable keys (max_line_length, "
    "capitalisation_policy, rules, exclude_rules); model: last writer wins in that order; the real CLI lints the file in a fresh process and its violations must equal those of an in-process lint "
    "with the model's flattened configuration (no files involved); isolation: a second file B at the project root is linted together with the configured file A (both orders, serial and "
    "--processes 2) and its violations must equal those of B linted alone; on the string route a plain statement is linted before and after a file with inline directives on ONE Linter and through sqlfluff.lint/fix with ONE shared FluffConfig and must give identical violations; distinct = hierarchy hash; non-trivial = at least two sources set the same key with different values"
)
ASSUMPTIONS = ["only behaviour-observable keys are generated, so the check never reads sqlfluff's internal config objects"]
TIMEOUT = {"quick": 900, "thorough": 1800}
MIN_NONTRIVIAL = {"quick": 35, "thorough": 200}
REQUIRED_COUNTERS = ["precedence_checks", "isolation_checks"]
N = 400
PROBE = "SELECT a, b  from some_table WHERE a = 1 and b = 2 Order by a\n"
PROBE_B = "select x,y from other_table where x = 1 AND y = 2 ORDER BY 1\n"
KEYS = {
    "max_line_length": ["20", "40", "55", "200"],
    "policy": ["upper", "lower", "capitalise"],
    "rules": ["LT05,CP01", "LT05,CP01,LT01", "CP01,LT01", "LT05"],
    "exclude_rules": ["LT01", "CP01", "LT05"],
}
SOURCES = ["user", "root", "sub", "deep", "extra", "cli", "inline"]


def gen(idx):
    r = rng("c27", 1, idx)
    lay = {}
    for s in SOURCES:
        if r.random() < (0.55 if s not in ("root",) else 0.9):
            ks = {}
            for k, vals in KEYS.items():
                if s == "cli" and k in ("max_line_length", "policy"):
                    continue
                if r.random() < 0.45:
                    ks[k] = r.choice(vals)
            if ks:
                lay[s] = ks
    lay["sub_kind"] = r.choice(["ini", "toml"])
    return lay


def cases(tier, seed):
    import random

    ids = list(range(N))
    random.Random(f"c27:{seed}").shuffle(ids)
    if tier == "quick":
        ids = ids[:70]
    return [{"id": f"cfg:{i}", "idx": i} for i in ids]


def as_cfg(ks, base=None):
    cfg = {"core": dict(base or {})}
    for k, v in ks.items():
        if k == "policy":
            cfg.setdefault("rules", {})["capitalisation.keywords"] = {"capitalisation_policy": v}
        else:
            cfg["core"][k] = v
    return cfg


def write_toml(dirpath, ks):
    lines = ["[tool.sqlfluff.core]"]
    for k, v in ks.items():
        if k != "policy":
            lines.append(f'{k} = "{v}"' if k != "max_line_length" else f"{k} = {v}")
    if "policy" in ks:
        lines += ['[tool.sqlfluff.rules."capitalisation.keywords"]', f'capitalisation_policy = "{ks["policy"]}"']
    with open(os.path.join(dirpath, "pyproject.toml"), "w") as f:
        f.write("\n".join(lines) + "\n")


def vkey(v):
    return (v["code"], v["start_line_no"], v["start_line_pos"], v["description"])


def run_case(case):
    lay = gen(case["idx"])
    home = os.path.realpath(tempfile.mkdtemp(prefix="vfw_c27_"))
    fails = []
    counters = {"precedence_checks": 0, "isolation_checks": 0}
    try:
        root = os.path.join(home, "proj")
        deep = os.path.join(root, "sub", "deep")
        os.makedirs(deep)
        if "user" in lay:
            sf.write_ini(home, as_cfg(lay["user"]))
        sf.write_ini(root, as_cfg(lay.get("root", {}), {"dialect": "ansi"}))
        if "sub" in lay:
            if lay["sub_kind"] == "toml":
                write_toml(os.path.join(root, "sub"), lay["sub"])
            else:
                sf.write_ini(os.path.join(root, "sub"), as_cfg(lay["sub"]))
        if "deep" in lay:
            sf.write_ini(deep, as_cfg(lay["deep"]))
        args_extra = []
        if "extra" in lay:
            sf.write_ini(root, as_cfg(lay["extra"]), name="extra.cfg")
            args_extra += ["--config", "extra.cfg"]
        if "cli" in lay:
            if "rules" in lay["cli"]:
                args_extra += ["--rules", lay["cli"]["rules"]]
            if "exclude_rules" in lay["cli"]:
                args_extra += ["--exclude-rules", lay["cli"]["exclude_rules"]]
        inline = ""
        if "inline" in lay:
            for k, v in lay["inline"].items():
                if k == "policy":
                    inline += f"-- sqlfluff:rules:capitalisation.keywords:capitalisation_policy:{v}\n"
                else:
                    inline += f"-- sqlfluff:{k}:{v}\n"
        sql_a = inline + PROBE
        rel_a = os.path.join("sub", "deep", "a.sql")
        with open(os.path.join(root, rel_a), "w") as f:
            f.write(sql_a)
        with open(os.path.join(root, "b.sql"), "w") as f:
            f.write(PROBE_B)
        # model: last writer wins
        eff = {}
        writers = {}
        for s in SOURCES:
            for k, v in lay.get(s, {}).items():
                writers.setdefault(k, []).append((s, v))
                eff[k] = v
        contested = any(len({v for _, v in w}) > 1 for w in writers.values())
        env = pool.worker_env({"HOME": home, "XDG_CONFIG_HOME": os.path.join(home, ".xdg")})

        def cli(args):
            pr = subprocess.run([pool.PYTHON, "-m", "sqlfluff", "lint"] + args + ["--format", "json", "--nocolor"], cwd=root, capture_output=True, timeout=400, env=env)
            return pr.returncode, pr.stdout.decode("utf-8", "replace"), pr.stderr.decode("utf-8", "replace")

        rc, out, err = cli([rel_a] + args_extra)
        try:
            got = sorted(vkey(v) for rec in json.loads(out) for v in rec["violations"])
        except Exception:
            return {"status": "skip", "counters": {"unreadable_json": 1}, "detail": (out[-300:], err[-400:], lay)}
        # expected: in-process lint with the flattened model config, inline lines kept in the text so
        # positions agree but with their keys already resolved by the model (inline is the last writer)
        lnt = sf.make_linter("ansi", rules=eff.get("rules"), exclude=eff.get("exclude_rules"),
                             core={"max_line_length": int(eff["max_line_length"])} if "max_line_length" in eff else None,
                             sections={"rules": {"capitalisation.keywords": {"capitalisation_policy": eff["policy"]}}} if "policy" in eff else None, cache=False)
        neutral = sql_a.replace("-- sqlfluff:", "-- sqlflufx:")
        want = sorted((v.rule_code(), v.line_no, v.line_pos, v.desc()) for v in lnt.lint_string(neutral).get_violations(filter_warning=False))
        counters["precedence_checks"] = 1
        if got != want:
            fails.append({"sig": "effective_config_differs_from_precedence_model", "detail": {"layout": lay, "effective_model": eff, "only_cli": [g for g in got if g not in want][:5], "only_model": [w for w in want if w not in got][:5], "stderr": err[-200:]}})
        # isolation of B
        rc_b, out_b, _ = cli(["b.sql"] + [a for a in args_extra])
        try:
            alone = sorted(vkey(v) for rec in json.loads(out_b) for v in rec["violations"])
            for order, extra in (([rel_a, "b.sql"], []), (["b.sql", rel_a], []), ([rel_a, "b.sql"], ["--processes", "2"])):
                _, o, _ = cli(order + args_extra + extra)
                recs = json.loads(o)
                together = sorted(vkey(v) for rec in recs if os.path.basename(rec["filepath"]) == "b.sql" for v in rec["violations"])
                counters["isolation_checks"] += 1
                if together != alone:
                    fails.append({"sig": "settings_leak_between_files", "detail": {"layout": lay, "order": order + extra, "b_alone": alone[:6], "b_with_a": together[:6]}})
                    break
        except Exception:
            counters["isolation_unreadable"] = 1
        # isolation on the string route: one Linter / one shared FluffConfig, plain -> inline -> plain
        try:
            import sqlfluff
            from sqlfluff.core import FluffConfig, Linter

            def vv(vs):
                return sorted((v.rule_code(), v.line_no, v.line_pos, v.desc()) for v in vs)

            shared = Linter(config=FluffConfig(overrides={"dialect": "ansi"}))
            first = vv(shared.lint_string(PROBE_B).get_violations(filter_warning=False))
            shared.lint_string(sql_a)
            shared.lint_string(sql_a, config=shared.config)
            again = vv(shared.lint_string(PROBE_B).get_violations(filter_warning=False))
            counters["isolation_checks"] += 1
            if first != again:
                fails.append({"sig": "settings_leak_between_strings:linter", "detail": {"inline": inline, "first": first[:5], "after_inline_file": again[:5]}})
            cfg = FluffConfig(overrides={"dialect": "ansi"})
            a1 = sqlfluff.lint(PROBE_B, config=cfg)
            sqlfluff.lint(sql_a, config=cfg)
            sqlfluff.fix(sql_a, config=cfg)
            a2 = sqlfluff.lint(PROBE_B, config=cfg)
            counters["isolation_checks"] += 1
            if a1 != a2:
                fails.append({"sig": "settings_leak_between_strings:api_shared_config", "detail": {"inline": inline, "first": [x["code"] for x in a1][:8], "after_inline_file": [x["code"] for x in a2][:8]}})
        except Exception as e:
            counters["string_isolation_error"] = 1
        return {
            "status": "fail" if fails else "pass",
            "failures": fails,
            "counters": counters,
            "key": case["id"] if contested else None,
            "sample": {"layout": lay, "effective": eff, "violations": got[:4]} if case["idx"] % 30 == 0 else None,
        }
    finally:
        shutil.rmtree(home, ignore_errors=True)
