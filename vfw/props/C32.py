"""C32 — Linting is read-only and repeatable (audit hook + history differential)."""

import hashlib
import json
import os
import shutil
import subprocess
import sys
import tempfile

from vfw.core import pool, sf
from vfw.gen import corpus, jinja_gen
from vfw.gen.corpus import rng

PROPERTY = "C32"
LEVEL = "exploration"
RULE = (
    "case = history script: a scratch directory of 4-9 input files (dialect fixtures, generated Jinja templates with block tags, files with noqa / inline config) and a seeded sequence of 5-20 "
    "operations (lint / parse / render / fix-on-a-copy of other files, other dialects, other rule selections incl. disable_noqa_except which touches the shared rule reference map) executed in ONE "
    "process under a sys.addaudithook monitor (open-for-write, os.rename/replace/remove/chmod/truncate/mkdir, shutil.*), followed by a lint of the probe file; the same probe lint is run in a fresh "
    "process with PYTHONHASHSEED 0 and 1 and twice in the history process; oracle: no write-type audit event touches an input path, directory listing / content hashes / inode / mtime unchanged, and "
    "the probe's violations identical in all four runs; a string-route stage lints a fixed probe string on ONE Linter and through sqlfluff.lint with ONE FluffConfig before and after strings carrying inline '-- sqlfluff:' directives (2- and 3-level keys), violations must be identical; distinct = script hash; non-trivial = history executed >= 5 operations and the probe reports >= 1 violation"
)
ASSUMPTIONS = ["sys.addaudithook sees every open()/os-level mutation made from Python code in the process"]
TIMEOUT = {"quick": 900, "thorough": 1800}
MIN_NONTRIVIAL = {"quick": 12, "thorough": 60}
REQUIRED_COUNTERS = ["history_ops", "audit_events_seen", "probe_comparisons"]
N = 160


def cases(tier, seed):
    import random

    ids = list(range(N))
    random.Random(f"c32:{seed}").shuffle(ids)
    if tier == "quick":
        ids = ids[:30]
    return [{"id": f"hist:{i}", "idx": i} for i in ids]


def script(idx):
    r = rng("c32", 1, idx)
    fx = [f for f in corpus.fixtures(2500)]
    files = []
    for i in range(r.randint(4, 9)):
        k = r.random()
        if k < 0.55:
            d, f = r.choice(fx)
            files.append({"name": f"f{i}.sql", "dialect": d, "templater": "raw", "text": corpus.fixture_text(d, f)})
        elif k < 0.85:
            g = jinja_gen.gen(r.randrange(3000), r.choice(["lintable", "hostile"]))
            files.append({"name": f"f{i}.sql", "dialect": "ansi", "templater": "jinja", "text": g["source"]})
        else:
            files.append({"name": f"f{i}.sql", "dialect": "ansi", "templater": "raw", "text": "SELECT a,b from t -- noqa: LT01\n-- sqlfluff:max_line_length:30\nselect 1 from a_very_long_table_name_here_x\n"})
    ops = []
    for _ in range(r.randint(5, 20)):
        ops.append({"op": r.choice(["lint", "lint", "parse", "render", "fix_copy", "lint_except", "lint_rules", "shared_lint", "shared_lint", "shared_ctx_a"]), "file": r.randrange(len(files)), "rules": r.choice([None, "core", "LT01,CP01", "layout"]), "except": r.choice(["LT01", "CP0*", "PRS"])})
    return {"files": files, "ops": ops, "probe": r.randrange(len(files))}


# string route: one Linter / one FluffConfig object serves several strings, some carrying inline directives
STR_PROBE = "SELECT a, b from t\nwhere x = 1 and y = 2 -- a trailing comment that makes this line rather long indeed\n"
INLINE_TEXTS = [
    "-- sqlfluff:rules:capitalisation.keywords:capitalisation_policy:lower\nselect 1\n",
    "-- sqlfluff:layout:type:comma:line_position:leading\nselect a\n    , b\nfrom t\n",
    "-- sqlfluff:max_line_length:20\nselect 1\n",
    "-- sqlfluff:rules:LT01\nselect  1\n",
    "-- sqlfluff:exclude_rules:CP01\nSELECT 1 from t\n",
    "-- sqlfluff:indentation:tab_space_size:2\nselect\n  1\n",
    "-- sqlfluff:rules:aliasing.table:aliasing:implicit\nselect a from t as u\n",
]


def _viol(linted):
    return sorted((v.rule_code(), v.line_no, v.line_pos, v.desc()) for v in linted.get_violations(filter_warning=False))


def _linter(dialect, templater, rules=None, core=None):
    """Core-level settings go in as overrides so that they survive the per-file
    config rebuild of the path route; the Jinja context lives in the directory's .sqlfluff."""
    from sqlfluff.core import FluffConfig, Linter

    ov = {"dialect": dialect, "templater": templater}
    if rules:
        ov["rules"] = rules
    ov.update(core or {})
    return Linter(config=FluffConfig(overrides=ov))


def _lint_file(path, dialect, templater, rules=None, core=None):
    res = _linter(dialect, templater, rules, core).lint_paths((path,), processes=1)
    return sorted((v.rule_code(), v.line_no, v.line_pos, v.desc()) for v in res.get_violations())


def _driver():
    """argv: mode(history|probe) dir ; script json on stdin."""
    mode, d = sys.argv[1], sys.argv[2]
    sc = json.loads(sys.stdin.read())
    events = []
    inputs = {os.path.join(d, f["name"]) for f in sc["files"]}
    WRITE_EVENTS = {"os.rename", "os.remove", "os.chmod", "os.truncate", "os.mkdir", "os.rmdir", "os.replace", "os.link", "os.symlink", "os.utime", "shutil.move", "shutil.copyfile", "shutil.rmtree", "os.chown"}
    seen = {"n": 0}

    def hook(event, args):
        seen["n"] += 1
        try:
            if event == "open":
                path, mode_, flags = args[0], args[1], args[2]
                w = (isinstance(mode_, str) and any(c in mode_ for c in "wax+")) or (isinstance(flags, int) and flags & (os.O_WRONLY | os.O_RDWR | os.O_CREAT | os.O_TRUNC | os.O_APPEND))
                if w and isinstance(path, str) and (os.path.abspath(path) in inputs or os.path.dirname(os.path.abspath(path)) == d and "copy_" not in os.path.basename(path)):
                    events.append([event, path, str(mode_)])
            elif event in WRITE_EVENTS:
                paths = [a for a in args if isinstance(a, str)]
                if any(os.path.abspath(p) in inputs or os.path.abspath(p) == d for p in paths):
                    events.append([event] + paths[:2])
        except Exception:
            pass

    sys.addaudithook(hook)
    out = {"ops": 0}
    files = sc["files"]
    shared = {}

    def shared_linter(dialect, templater):
        k = (dialect, templater)
        if k not in shared:
            shared[k] = _linter(dialect, templater)
        return shared[k]

    def shared_lint(path, dialect, templater):
        res = shared_linter(dialect, templater).lint_paths((path,), processes=1)
        return sorted((v.rule_code(), v.line_no, v.line_pos, v.desc()) for v in res.get_violations())

    ctx_b = os.path.join(d, "ctx_b", "q.sql")
    if mode == "history":
        from sqlfluff.core import Linter

        p = files[sc["probe"]]
        out["probe_first"] = _lint_file(os.path.join(d, p["name"]), p["dialect"], p["templater"])
        for op in sc["ops"]:
            f = files[op["file"]]
            path = os.path.join(d, f["name"])
            try:
                ctx = jinja_gen.CONTEXT if f["templater"] == "jinja" else None
                if op["op"] == "lint":
                    _lint_file(path, f["dialect"], f["templater"])
                elif op["op"] == "lint_rules":
                    _lint_file(path, f["dialect"], f["templater"], rules=op["rules"])
                elif op["op"] == "lint_except":
                    _lint_file(path, f["dialect"], f["templater"], core={"disable_noqa": True, "disable_noqa_except": op["except"]})
                elif op["op"] == "shared_lint":
                    shared_lint(path, f["dialect"], f["templater"])
                elif op["op"] == "shared_ctx_a":
                    shared_lint(os.path.join(d, "ctx_a", "q.sql"), "ansi", "jinja")
                elif op["op"] == "parse":
                    lnt = _linter(f["dialect"], f["templater"])
                    list(lnt.parse_path(path))
                elif op["op"] == "render":
                    lnt = _linter(f["dialect"], f["templater"])
                    lnt.render_file(path, lnt.config)
                elif op["op"] == "fix_copy":
                    cp = os.path.join(d, "copy_" + f["name"])
                    with open(path, "rb") as a, open(cp, "wb") as b:
                        b.write(a.read())
                    lnt = _linter(f["dialect"], f["templater"])
                    lnt.lint_paths((cp,), fix=True, apply_fixes=True, processes=1)
                    os.remove(cp)
            except Exception as e:
                out.setdefault("op_errors", []).append(f"{op['op']}: {type(e).__name__}")
            out["ops"] += 1
        out["probe_after"] = _lint_file(os.path.join(d, p["name"]), p["dialect"], p["templater"])
        out["probe_again"] = _lint_file(os.path.join(d, p["name"]), p["dialect"], p["templater"])
        # same Linter object that served the history (templater / config objects are reused)
        shared_lint(os.path.join(d, "ctx_a", "q.sql"), "ansi", "jinja")
        out["probe_shared"] = shared_lint(os.path.join(d, p["name"]), p["dialect"], p["templater"])
        out["ctx_b_shared"] = shared_lint(ctx_b, "ansi", "jinja")
        # string route on shared objects: plain -> strings with inline directives -> plain again
        import sqlfluff
        from sqlfluff.core import FluffConfig

        texts = list(INLINE_TEXTS)
        rng("c32-str", json.dumps(sc["ops"])).shuffle(texts)
        sl = Linter(config=FluffConfig(overrides={"dialect": "ansi"}))
        out["str_first"] = _viol(sl.lint_string(STR_PROBE))
        cfg = FluffConfig(overrides={"dialect": "ansi"})
        out["api_first"] = [[v["code"], v["start_line_no"], v["start_line_pos"], v["description"]] for v in sqlfluff.lint(STR_PROBE, config=cfg)]
        for t in texts:
            try:
                sl.lint_string(t)
                sl.parse_string(t)
                sl.lint_string(t, fix=True)
                sqlfluff.lint(t, config=cfg)
                sqlfluff.fix(t, config=cfg)
                sqlfluff.parse(t, config=cfg)
            except Exception as e:
                out.setdefault("op_errors", []).append(f"string_route: {type(e).__name__}")
            out["ops"] += 1
        out["str_after"] = _viol(sl.lint_string(STR_PROBE))
        out["api_after"] = [[v["code"], v["start_line_no"], v["start_line_pos"], v["description"]] for v in sqlfluff.lint(STR_PROBE, config=cfg)]
    else:
        p = files[sc["probe"]]
        out["probe"] = _lint_file(os.path.join(d, p["name"]), p["dialect"], p["templater"])
        out["ctx_b"] = _lint_file(ctx_b, "ansi", "jinja")
    out["write_events"] = events[:10]
    out["audit_events"] = seen["n"]
    print("VFWREPORT " + json.dumps(out))


def snap(d):
    out = {}
    for dp, _, fs in sorted(os.walk(d)):
        for n in sorted(fs):
            p = os.path.join(dp, n)
            st = os.stat(p)
            with open(p, "rb") as f:
                out[os.path.relpath(p, d)] = (hashlib.sha1(f.read()).hexdigest(), st.st_ino, st.st_mtime_ns, st.st_mode)
    return out


def run_driver(mode, d, sc, hashseed):
    env = pool.worker_env({"HOME": d + "_home", "PYTHONHASHSEED": str(hashseed)})
    pr = subprocess.run([pool.PYTHON, "-m", "vfw.props.C32", mode, d], input=json.dumps(sc).encode(), capture_output=True, timeout=800, env=env, cwd=d)
    for line in pr.stdout.decode("utf-8", "replace").splitlines():
        if line.startswith("VFWREPORT "):
            return json.loads(line[10:])
    return {"error": pr.stderr.decode("utf-8", "replace")[-600:]}


def run_case(case):
    sc = script(case["idx"])
    d = os.path.realpath(tempfile.mkdtemp(prefix="vfw_c32_"))
    os.makedirs(d + "_home", exist_ok=True)
    fails = []
    try:
        for f in sc["files"]:
            with open(os.path.join(d, f["name"]), "w", encoding="utf-8", newline="") as fh:
                fh.write(f["text"])
        sf.write_ini(d, {"core": {}, "templater": {"jinja": {"context": dict(jinja_gen.CONTEXT)}}})
        # two sub-directories whose files differ only in the (nested) templater context available to them
        for sub, ctx in (("ctx_a", {"tbl_only_in_a": "foo"}), ("ctx_b", None)):
            os.makedirs(os.path.join(d, sub))
            with open(os.path.join(d, sub, "q.sql"), "w") as fh:
                fh.write("SELECT a FROM {{ tbl_only_in_a }}\n")
            if ctx:
                sf.write_ini(os.path.join(d, sub), {"templater": {"jinja": {"context": ctx}}})
        before = snap(d)
        hist = run_driver("history", d, sc, 0)
        after = snap(d)
        if "error" in hist:
            return {"status": "harness_error", "detail": hist["error"]}
        fresh0 = run_driver("probe", d, sc, 0)
        fresh1 = run_driver("probe", d, sc, 1)
        after2 = snap(d)
        if "error" in fresh0 or "error" in fresh1:
            return {"status": "harness_error", "detail": fresh0.get("error") or fresh1.get("error")}
        if hist["write_events"]:
            fails.append({"sig": f"write_event_on_input:{hist['write_events'][0][0]}", "detail": {"events": hist["write_events"][:4]}})
        for fr in (fresh0, fresh1):
            if fr["write_events"]:
                fails.append({"sig": f"write_event_on_input:{fr['write_events'][0][0]}", "detail": {"events": fr["write_events"][:4]}})
        if before != after or before != after2:
            diff = [n for n in set(before) | set(after2) if before.get(n) != after2.get(n) or before.get(n) != after.get(n)]
            fails.append({"sig": "input_files_changed_on_disk", "detail": {"files": diff[:5]}})
        runs = {"history_first": hist["probe_first"], "after_history": hist["probe_after"], "again_same_process": hist["probe_again"], "shared_linter_after_history": hist["probe_shared"], "fresh_hashseed0": fresh0["probe"], "fresh_hashseed1": fresh1["probe"]}
        if hist["ctx_b_shared"] != fresh0["ctx_b"]:
            fails.append({"sig": "violations_differ:shared_linter_other_directory_context", "detail": {"fresh": fresh0["ctx_b"][:4], "after_history_same_linter": hist["ctx_b_shared"][:4]}})
        for a, b in (("str_first", "str_after"), ("api_first", "api_after")):
            if json.dumps(hist[a]) != json.dumps(hist[b]):
                fails.append({"sig": f"violations_differ:string_route_shared_{'linter' if a.startswith('str') else 'config'}", "detail": {"first": hist[a][:6], "after_strings_with_inline_directives": hist[b][:6]}})
        ref = runs["fresh_hashseed0"]
        for name, v in runs.items():
            if v != ref:
                fails.append({"sig": f"violations_differ:{name}", "detail": {"probe": sc["files"][sc["probe"]]["name"], "only_ref": [x for x in ref if x not in v][:4], "only_run": [x for x in v if x not in ref][:4], "ops": [o["op"] for o in sc["ops"]]}})
        return {
            "status": "fail" if fails else "pass",
            "failures": fails[:3],
            "counters": {"history_ops": hist["ops"], "audit_events_seen": hist["audit_events"], "probe_comparisons": 6, "string_route_probe_violations": len(hist["str_first"])},
            "key": case["id"] if hist["ops"] >= 5 and ref else None,
            "sample": {"files": [(f["name"], f["dialect"], f["templater"]) for f in sc["files"]], "ops": [o["op"] for o in sc["ops"]], "probe_violations": len(ref), "audit_events": hist["audit_events"]} if case["idx"] % 10 == 0 else None,
        }
    finally:
        shutil.rmtree(d, ignore_errors=True)
        shutil.rmtree(d + "_home", ignore_errors=True)


if __name__ == "__main__":
    _driver()
