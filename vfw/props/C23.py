"""C23 — Reported violation positions are accurate."""

import json
import os
import shutil
import subprocess
import tempfile

from vfw.core import pool, sf
from vfw.gen.corpus import stratified_sample
from vfw.props import common

PROPERTY = "C23"
LEVEL = "exploration"
RULE = (
    "case = (text, dialect, templater) from dialect fixtures <= 4 kB, seeded mutants, the repo's rule yaml examples, lintable Jinja and placeholder templates, linted with all rules; for every violation "
    "object and its to_dict()/fix dicts: 1<=line<=#lines, 1<=col<=len(line)+1, start/end file offsets within [0,len(source)], ordered, and equal to the independently computed (line,col) of that offset; for "
    "violations anchored on code that exists literally in the source: source[first token slice] == token text and (line,col) is that token's first character; a stratified share is re-run through the real CLI "
    "(--format json|yaml|github-annotation-native) and the same bounds/consistency checks applied to the machine output; distinct = content hash; non-trivial = at least one violation checked"
)
ASSUMPTIONS = ["container anchors whose own source start differs from their first token's (spanning loop iterations) are exempt from the first-character clause"]
TIMEOUT = {"quick": 400, "thorough": 900}
MIN_NONTRIVIAL = {"quick": 100, "thorough": 1500}
REQUIRED_COUNTERS = ["violations_checked", "dicts_checked"]
FOUR = ("ansi", "postgres", "tsql", "bigquery")


def universe():
    u = common.fx_cases(4000) + common.mx_cases(1, 4000, start=70) + common.rc_cases() + common.jj_cases(900, "lintable", FOUR) + common.jj_cases(120, "loopsep", FOUR) + common.ph_cases(300, True) + common.py_cases(200, True)
    out = []
    for i, c in enumerate(u):
        c = dict(c)
        if i % 12 == 0 and c["kind"] in ("fx", "mx", "rc"):
            c["cli"] = ("json", "yaml", "github-annotation-native")[(i // 12) % 3]
            c["id"] += f"|cli={c['cli']}"
            c["stratum"] += "|cli"
        out.append(c)
    return out


def cases(tier, seed):
    return stratified_sample(universe(), lambda c: c["stratum"], 450 if tier == "quick" else 0, seed)


def model(s, i):
    return s.count("\n", 0, i) + 1, i - (s.rfind("\n", 0, i) + 1) + 1


def check_dict(d, src, lines, what, loops=False):
    """Bounds + offset/line consistency for one serialised position dict."""
    ln, col = d.get("start_line_no"), d.get("start_line_pos")
    if not (isinstance(ln, int) and isinstance(col, int)):
        return None
    if not (1 <= ln <= len(lines)) or not (1 <= col <= len(lines[ln - 1]) + 1):
        return {"sig": f"{what}_position_outside_file", "detail": {"line": ln, "col": col, "n_lines": len(lines), "line_len": len(lines[ln - 1]) if 1 <= ln <= len(lines) else None, "dict": {k: d[k] for k in d if k != "fixes"}}}
    if "start_file_pos" in d:
        sp, ep = d["start_file_pos"], d.get("end_file_pos", d["start_file_pos"])
        # NOTE: an anchor that spans a loop's backward jump has no single source range (same exemption as
        # C01's spans_backward_jump); start > end is only judged for files without template loops.
        if not (0 <= sp <= len(src) and 0 <= ep <= len(src)) or (sp > ep and not loops):
            return {"sig": f"{what}_offsets_out_of_bounds", "detail": {"start": sp, "end": ep, "len": len(src)}}
        if model(src, sp) != (ln, col):
            return {"sig": f"{what}_offset_disagrees_with_linecol", "detail": {"offset": sp, "reported": (ln, col), "computed": model(src, sp)}}
        if "end_line_no" in d and model(src, ep) != (d["end_line_no"], d["end_line_pos"]):
            return {"sig": f"{what}_end_offset_disagrees_with_linecol", "detail": {"offset": ep, "reported": (d["end_line_no"], d["end_line_pos"]), "computed": model(src, ep)}}
    return None


def run_case(case):
    from sqlfluff.core.errors import SQLLintError

    r = common.resolve(case)
    src = r["source"].replace("\r\n", "\n").replace("\r", "\n")
    lines = src.split("\n")
    lnt = sf.make_linter(r["dialect"], r["templater"], sections=r.get("sections"), context=r["context"])
    try:
        linted = lnt.lint_string(r["source"])
        viols = linted.get_violations(filter_ignore=False, filter_warning=False)
    except Exception as e:
        return {"status": "skip", "counters": {"lint_raised": 1}, "detail": repr(e)[:200]}
    fails = []
    counters = {"violations_checked": 0, "dicts_checked": 0, "first_char_checked": 0}
    classes = set()
    loops = "loop" in (r.get("features") or [])
    if "conditional" in (r.get("features") or []):
        classes.add("jinja.conditional")
    for v in viols:
        counters["violations_checked"] += 1
        if not (1 <= v.line_no <= len(lines)) or not (1 <= v.line_pos <= len(lines[v.line_no - 1]) + 1):
            fails.append({"sig": "violation_position_outside_file", "detail": {"code": v.rule_code(), "line": v.line_no, "col": v.line_pos, "n_lines": len(lines), "desc": v.desc()[:100]}})
            continue
        try:
            d = v.to_dict()
        except Exception as e:
            fails.append({"sig": f"to_dict_raised:{type(e).__name__}", "detail": {"code": v.rule_code(), "err": repr(e)[:200]}})
            continue
        counters["dicts_checked"] += 1
        f = check_dict(d, src, lines, "violation", loops)
        if f:
            f["detail"]["code"] = v.rule_code()
            fails.append(f)
        for fx in d.get("fixes") or []:
            counters["dicts_checked"] += 1
            f = check_dict(fx, src, lines, "fix", loops)
            if f:
                f["detail"]["code"] = v.rule_code()
                fails.append(f)
        if isinstance(v, SQLLintError) and v.segment is not None and v.segment.pos_marker is not None:
            leaves = [s for s in v.segment.raw_segments if s.raw != ""]
            if leaves:
                first = leaves[0]
                pm = first.pos_marker
                tf = pm.templated_file
                ss = pm.source_slice
                if pm.is_literal() and ss.stop > ss.start and v.segment.pos_marker.source_slice.start == ss.start and tf.source_str[ss] == first.raw:
                    counters["first_char_checked"] += 1
                    if model(tf.source_str, ss.start) != (v.line_no, v.line_pos):
                        fails.append({"sig": "violation_not_at_first_character", "detail": {"code": v.rule_code(), "reported": (v.line_no, v.line_pos), "token": first.raw[:40], "token_at": model(tf.source_str, ss.start)}})
                elif pm.is_literal() and ss.stop > ss.start and ss.stop - ss.start == len(first.raw) and tf.source_str[ss] != first.raw and first.raw == tf.templated_str[pm.templated_slice]:
                    fails.append({"sig": "literal_token_maps_to_wrong_source_text", "detail": {"code": v.rule_code(), "token": first.raw[:40], "source_text": tf.source_str[ss][:40]}})
    if case.get("cli") and not fails:
        f = cli_check(case, r, src, lines, counters)
        if f:
            fails.append(f)
    seen, uniq = set(), []
    for f in fails:
        if f["sig"] not in seen:
            seen.add(f["sig"])
            uniq.append(f)
    return {
        "status": "fail" if uniq else "pass",
        "failures": uniq,
        "classes": sorted(classes),
        "counters": counters,
        "key": common.text_key(r) if counters["violations_checked"] else None,
        "sample": {"source": src[:120], "dialect": r["dialect"], "violations": [(v.rule_code(), v.line_no, v.line_pos) for v in viols[:5]]} if len(src) < 120 and viols else None,
    }


def cli_check(case, r, src, lines, counters):
    fmt = case["cli"]
    d = tempfile.mkdtemp(prefix="vfw_c23_")
    try:
        sf.write_ini(d, sf.config_dict(r["dialect"], r["templater"], sections=r.get("sections"), context=r["context"]))
        with open(os.path.join(d, "f.sql"), "w", encoding="utf-8", newline="") as f:
            f.write(src)
        pr = subprocess.run([pool.PYTHON, "-m", "sqlfluff", "lint", "f.sql", "--format", fmt, "--nocolor"], cwd=d, capture_output=True, timeout=300, env=pool.worker_env({"HOME": d}))
        out = pr.stdout.decode("utf-8", "replace")
        if pr.returncode not in (0, 1):
            return None
        if fmt == "yaml":
            import yaml

            recs = yaml.safe_load(out)
        else:
            recs = json.loads(out)
        counters["cli_outputs_checked"] = 1
        if fmt == "github-annotation-native":
            return None
        items = []
        if fmt == "github-annotation":
            for a in recs:
                items.append({"start_line_no": a.get("start_line", a.get("line")), "start_line_pos": a.get("start_column", 1)})
        else:
            for rec in recs:
                items += rec.get("violations", [])
        for it in items:
            counters["dicts_checked"] += 1
            f = check_dict(it, src, lines, f"cli_{fmt}")
            if f:
                return f
            for fx in it.get("fixes") or []:
                f = check_dict(fx, src, lines, f"cli_{fmt}_fix")
                if f:
                    return f
    except Exception:
        return None
    finally:
        shutil.rmtree(d, ignore_errors=True)
    return None
