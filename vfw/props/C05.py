"""C05 — No rule fails internally on any parse tree (M-RULE + description scan)."""

from vfw.gen.corpus import stratified_sample
from vfw.props import fixcase

PROPERTY = "C05"
LEVEL = "exploration"
RULE = (
    "case = (sql, dialect, rule selection, rule options) from dialect fixtures, seeded mutants (partly unparsable on purpose), the repo's rule yaml "
    "examples with their own configs, and lintable Jinja templates, run through Linter.lint_string(fix=True) twice (second pass on the fixed text) with "
    "all rules, default options and a non-default option bundle; plus a lint-only pass (all rules, default options) over every dialect fixture <= 12 kB and one mutant each; monitor = wrapper on BaseRule._log_critical_errors (the seam called from crawl's "
    "exception handler) + scan of violation descriptions; distinct = content hash of (dialect, source, ruleset, options); non-trivial = at least one rule crawled a tree"
)
ASSUMPTIONS = ["an exception in a rule is always routed through BaseRule.crawl's handler (which calls _log_critical_errors)"]
TIMEOUT = {"quick": 400, "thorough": 900}
MIN_NONTRIVIAL = {"quick": 300, "thorough": 2000}
REQUIRED_COUNTERS = ["violations_scanned"]

OPTIONS = {
    "sections": {
        "indentation": {"indent_unit": "tab", "indented_joins": True, "indented_using_on": False, "allow_implicit_indents": True},
        "layout": {"type": {"comma": {"line_position": "leading"}, "binary_operator": {"line_position": "trailing"}}},
        "rules": {
            "capitalisation.keywords": {"capitalisation_policy": "upper"},
            "capitalisation.identifiers": {"extended_capitalisation_policy": "pascal"},
            "capitalisation.functions": {"extended_capitalisation_policy": "snake"},
            "aliasing.table": {"aliasing": "implicit"},
            "aliasing.column": {"aliasing": "implicit"},
            "aliasing.length": {"min_alias_length": 3, "max_alias_length": 8},
            "aliasing.forbid": {"force_enable": True},
            "ambiguous.join": {"fully_qualify_join_types": "both"},
            "ambiguous.column_references": {"group_by_and_order_by_style": "explicit"},
            "convention.select_trailing_comma": {"select_clause_trailing_comma": "require"},
            "convention.count_rows": {"prefer_count_1": True},
            "convention.terminator": {"multiline_newline": True, "require_final_semicolon": True},
            "convention.quoted_literals": {"preferred_quoted_literal_style": "double_quotes", "force_enable": True},
            "convention.casting_style": {"preferred_type_casting_style": "cast"},
            "convention.not_equal": {"preferred_not_equal_style": "ansi"},
            "references.consistent": {"single_table_references": "qualified", "force_enable": True},
            "references.keywords": {"quoted_identifiers_policy": "all"},
            "references.special_chars": {"allow_space_in_identifier": True},
            "references.quoting": {"prefer_quoted_identifiers": True},
            "structure.subquery": {"forbid_subquery_in": "both"},
            "structure.join_condition_order": {"preferred_first_table_in_join_clause": "later"},
            "layout.long_lines": {"ignore_comment_lines": True},
            "layout.select_targets": {"wildcard_policy": "multiple"},
        },
    },
    "core": {"max_line_length": 40},
}


def universe():
    u = [c for c in fixcase.base_universe(fx_bytes=3000, mx=1, rulesets=("all",), rc_rulesets=("all",), jj=160, cx=1, feu=False) if not c["id"].startswith(("ws:", "qs:")) and not (c["kind"] == "rc" and c["id"].endswith("pass_str|rules=all"))]
    out = []
    for i, c in enumerate(u):
        out.append(c)
        if i % 3 == 0:
            d = dict(c)
            d["sections"] = OPTIONS["sections"]
            d["core"] = OPTIONS["core"]
            d["id"] += "|opts=nd"
            d["stratum"] = d.get("stratum", "") + "|nd"
            out.append(d)
    return out


def lint_universe():
    """Cheap lint-only pass over EVERY dialect fixture (<= 12 kB) and mutant: wide reach for rule crashes."""
    from vfw.props import common

    out = []
    for c in common.fx_cases(12000) + common.mx_cases(1, 6000, start=90):
        c = dict(c)
        c["rules"] = "all"
        c["lint_only"] = True
        c["id"] += "|lint"
        c["stratum"] += "|lint"
        out.append(c)
    return out


def cases(tier, seed):
    if tier == "quick":
        lu = lint_universe()
        # quick: every dialect fixture is linted (cheap), mutants are sampled
        return (stratified_sample(universe(), lambda c: c.get("stratum", ""), 200, seed) + [c for c in lu if c["kind"] == "fx"]
                + stratified_sample([c for c in lu if c["kind"] != "fx"], lambda c: c.get("stratum", ""), 300, seed))
    return universe() + lint_universe()


def run_lint_only(case):
    from vfw.core import sf

    fixcase.install_rule_monitor()
    r = fixcase.common.resolve(case)
    lnt = sf.make_linter(r["dialect"], r["templater"])
    fixcase._critical["n"] = 0
    try:
        linted = lnt.lint_string(r["source"])
    except Exception as e:
        return {"status": "skip", "counters": {"lint_raised": 1}, "detail": repr(e)[:200]}
    viols = linted.get_violations(filter_ignore=False, filter_warning=False)
    fails = []
    bad = [v for v in viols if (v.desc() or "").startswith("Unexpected exception")]
    if bad:
        fails.append({"sig": f"unexpected_exception:{bad[0].rule_code()}", "detail": {"desc": bad[0].desc()[:300], "line": bad[0].line_no}})
    elif fixcase._critical["n"]:
        fails.append({"sig": "rule_handler_entered", "detail": {"n": fixcase._critical["n"], "last": fixcase._critical.get("last")}})
    return {"status": "fail" if fails else "pass", "failures": fails, "counters": {"violations_scanned": len(viols), "lint_only_cases": 1},
            "key": fixcase.common.text_key(r) + "|lint" if linted.tree is not None else None}


def run_case(case):
    if case.get("lint_only"):
        return run_lint_only(case)
    r, lnt, obs = fixcase.observe(case, second_pass=True)
    if lnt is None:
        return {"status": "harness_error", "detail": obs}
    if "raised" in obs:
        return {"status": "skip", "counters": {"lint_raised": 1}, "detail": obs["raised"]}
    fails = []
    viols = obs.get("violations") or []
    bad = [v for v in viols if (v.desc() or "").startswith("Unexpected exception")]
    if bad:
        v = bad[0]
        fails.append({"sig": f"unexpected_exception:{v.rule_code()}", "detail": {"desc": v.desc()[:300], "line": v.line_no}})
    elif obs.get("critical"):
        fails.append({"sig": "rule_handler_entered", "detail": {"n": obs["critical"], "last": obs.get("critical_last")}})
    linted = obs["linted"]
    return {
        "status": "fail" if fails else "pass",
        "failures": fails,
        "counters": {"violations_scanned": len(viols), "crawled_trees": 1 if linted.tree is not None else 0, "src_prs": obs["src_errs"]["PRS"]},
        "key": fixcase.common.text_key(r) + "|" + case.get("rules", "") + ("|nd" if case.get("sections") else "") if linted.tree is not None else None,
        "sample": {"source": r["source"][:200], "dialect": r["dialect"], "rules": case.get("rules"), "n_violations": len(viols), "options": "non-default" if case.get("sections") else "default"} if case["kind"] == "mx" else None,
    }
