"""C28 — Parse output is a faithful serialisation of the tree."""

import ast
import json
import os
import re
import shutil
import subprocess
import tempfile

from vfw.core import pool, sf
from vfw.gen.corpus import stratified_sample
from vfw.props import common

PROPERTY = "C28"
LEVEL = "exploration"
RULE = (
    "case = (text, dialect) from dialect fixtures <= 4 kB, seeded mutants and hostile strings; the tree from Linter.parse_string is flattened to [(type path, token text)] and compared with the same list "
    "reconstructed from (i) tree.as_record(show_raw) with/without metas and positions after a JSON and a YAML round trip, (ii) sqlfluff.parse() (for error-free inputs), and for a stratified share (iii) the real "
    "CLI 'sqlfluff parse' in json, yaml and human formats (with and without --include-meta); oracle: same tokens, same order, same nesting paths, concatenated texts == rendered SQL; "
    "distinct = content hash; non-trivial = tree with >= 3 leaves"
)
ASSUMPTIONS = ["zero-width metas are compared only in the include-meta variants"]
TIMEOUT = {"quick": 400, "thorough": 900}
MIN_NONTRIVIAL = {"quick": 80, "thorough": 1500}
REQUIRED_COUNTERS = ["records_compared"]
POS_KEYS = {"start_line_no", "start_line_pos", "start_file_pos", "end_line_no", "end_line_pos", "end_file_pos"}


def universe():
    u = common.fx_cases(4000) + common.mx_cases(1, 4000, start=80) + common.hs_cases(every=5)
    out = []
    for i, c in enumerate(u):
        c = dict(c)
        if i % 10 == 0:
            c["cli"] = True
            c["id"] += "|cli"
            c["stratum"] += "|cli"
        out.append(c)
    return out


def cases(tier, seed):
    key = lambda c: ("hs" + ("|cli" if c.get("cli") else "")) if c["kind"] == "hs" else c["stratum"]
    return stratified_sample(universe(), key, 360 if tier == "quick" else 0, seed)


def tree_leaves(tree, include_meta):
    out = []

    def rec(node, path):
        p = path + (node.get_type(),)
        if not node.segments:
            if node.is_meta and not include_meta:
                return
            out.append((p, node.raw))
            return
        for ch in node.segments:
            rec(ch, p)

    rec(tree, ())
    return out


def record_leaves(record):
    out = []

    def rec(d, path):
        for k, v in d.items():
            if k in POS_KEYS and isinstance(v, int):
                continue
            p = path + (k,)
            if isinstance(v, str):
                out.append((p, v))
            elif isinstance(v, dict):
                rec(v, p)
            elif isinstance(v, list):
                for item in v:
                    rec(item, p)
            elif v is None:
                pass

    rec(record, ())
    return out


HUMAN = re.compile(r"^\[L:\s*\d+, P:\s*\d+\]\s*\|(\s*)([^\s:]+):\s*(.*)$")


def human_leaves(text):
    out = []
    stack = []
    for line in text.splitlines():
        m = HUMAN.match(line)
        if not m:
            continue
        depth = len(m.group(1)) // 4
        typ, rest = m.group(2), m.group(3).strip()
        stack = stack[:depth] + [typ]
        if rest and rest[0] in "'\"":
            try:
                raw = ast.literal_eval(rest)
            except Exception:
                continue
            out.append((tuple(stack), raw))
    return out


def cmp(a, b, what, fails, rendered=None):
    if a != b:
        i = 0
        while i < min(len(a), len(b)) and a[i] == b[i]:
            i += 1
        fails.append({"sig": f"{what}_differs_from_tree", "detail": {"index": i, "tree": a[i : i + 2], "output": b[i : i + 2], "n_tree": len(a), "n_output": len(b)}})
    elif rendered is not None and "".join(r for _, r in b) != rendered:
        fails.append({"sig": f"{what}_texts_do_not_concatenate_to_sql", "detail": {}})


def run_case(case):
    import yaml

    import sqlfluff

    r = common.resolve(case)
    lnt = sf.make_linter(r["dialect"])
    try:
        parsed = lnt.parse_string(r["source"])
    except Exception as e:
        return {"status": "skip", "counters": {"parse_raised": 1}, "detail": repr(e)[:200]}
    rv = parsed.root_variant()
    if rv is None or rv.tree is None:
        return {"status": "skip", "counters": {"no_tree": 1}}
    tree = rv.tree
    rendered = rv.templated_file.templated_str
    fails = []
    counters = {"records_compared": 0}
    want = tree_leaves(tree, False)
    want_meta = tree_leaves(tree, True)
    if "".join(x for _, x in want) != rendered:
        fails.append({"sig": "tree_texts_do_not_concatenate_to_sql", "detail": {}})
    for kw, w in (({"show_raw": True}, want), ({"show_raw": True, "include_meta": True}, want_meta), ({"show_raw": True, "include_meta": True, "include_position": True}, want_meta)):
        try:
            rec = tree.as_record(**kw)
            counters["records_compared"] += 2
            cmp(w, record_leaves(json.loads(json.dumps(rec))), "json_record" + ("_meta" if kw.get("include_meta") else "") + ("_pos" if kw.get("include_position") else ""), fails, rendered)
            if len(w) <= 250 and not kw.get("include_position"):  # PyYAML is slow; round-trip the smaller trees
                counters["yaml_roundtrips"] = counters.get("yaml_roundtrips", 0) + 1
                cmp(w, record_leaves(yaml.safe_load(yaml.dump(rec, sort_keys=False, allow_unicode=True))), "yaml_record" + ("_meta" if kw.get("include_meta") else ""), fails, rendered)
        except Exception as e:
            fails.append({"sig": f"as_record_raised:{type(e).__name__}", "detail": {"kw": kw, "err": repr(e)[:200]}})
    if not parsed.violations:
        try:
            rec = sqlfluff.parse(r["source"], config=lnt.config)
            counters["records_compared"] += 1
            counters["api_parse_compared"] = 1
            cmp(want, record_leaves(rec), "api_parse", fails, rendered)
        except Exception as e:
            fails.append({"sig": f"api_parse_raised:{type(e).__name__}", "detail": {"err": repr(e)[:200]}})
    if case.get("cli") and not fails and not r["source"].startswith("\ufeff"):  # a BOM is consumed by the file reader
        d = tempfile.mkdtemp(prefix="vfw_c28_")
        try:
            with open(os.path.join(d, "f.sql"), "w", encoding="utf-8", newline="") as f:
                f.write(r["source"])
            for fmt, meta in (("json", False), ("yaml", True), ("human", False)):
                args = [pool.PYTHON, "-m", "sqlfluff", "parse", "f.sql", "--dialect", r["dialect"], "--templater", "raw", "--format", fmt, "--nocolor"] + (["--include-meta"] if meta else [])
                pr = subprocess.run(args, cwd=d, capture_output=True, timeout=300, env=pool.worker_env({"HOME": d}))
                out = pr.stdout.decode("utf-8", "replace")
                if pr.returncode not in (0, 1):
                    continue
                w = want_meta if meta else want
                try:
                    if fmt == "json":
                        recs = json.loads(out)
                        got = record_leaves(recs[0]["segments"])
                    elif fmt == "yaml":
                        recs = yaml.safe_load(out)
                        got = record_leaves(recs[0]["segments"])
                    else:
                        got = human_leaves(out)
                        # the human format prints only non-empty tokens reliably; compare those
                        # the human format is not a structured format (unparsable nodes carry extra
                        # annotation lines): compare the sequence of (token type, text) only
                        w = [(p[-1], x) for p, x in want if x != ""]
                        got = [(p[-1], x) for p, x in got if x != ""]
                except Exception as e:
                    fails.append({"sig": f"cli_{fmt}_unreadable:{type(e).__name__}", "detail": {"out": out[:300]}})
                    continue
                counters["records_compared"] += 1
                counters["cli_outputs_compared"] = counters.get("cli_outputs_compared", 0) + 1
                cmp(w, got, f"cli_{fmt}", fails, None)
        finally:
            shutil.rmtree(d, ignore_errors=True)
    seen, uniq = set(), []
    for f in fails:
        if f["sig"] not in seen:
            seen.add(f["sig"])
            uniq.append(f)
    return {
        "status": "fail" if uniq else "pass",
        "failures": uniq,
        "counters": counters,
        "key": common.text_key(r) if len(want) >= 3 else None,
        "sample": {"source": r["source"][:100], "dialect": r["dialect"], "leaves": len(want), "first": want[:2]} if len(r["source"]) < 100 and len(want) > 2 else None,
    }
