"""Shared case builders / resolvers used by the property modules."""

from __future__ import annotations

from typing import Optional

from vfw.gen import corpus, hostile, jinja_gen, tmpl_gen
from vfw.gen.corpus import DIALECTS, rng, short_hash


# ---------------------------------------------------------------- builders
def fx_cases(max_bytes: int = 0, dialects=None) -> list:
    return [
        {"id": f"fx:{d}/{f}", "kind": "fx", "dialect": d, "file": f, "stratum": f"fx:{d}"}
        for d, f in corpus.fixtures(max_bytes)
        if dialects is None or d in dialects
    ]


def mx_cases(m: int, max_bytes: int = 0, dialects=None, start: int = 0) -> list:
    return [
        {"id": f"mx:{d}/{f}#{k}", "kind": "mx", "dialect": d, "file": f, "k": k, "stratum": f"mx:{d}"}
        for d, f in corpus.fixtures(max_bytes)
        if dialects is None or d in dialects
        for k in range(start, start + m)
    ]


def cx_cases(m: int = 1, max_bytes: int = 0, dialects=None) -> list:
    """comment-injected fixtures"""
    return [
        {"id": f"cx:{d}/{f}#{k}", "kind": "cx", "dialect": d, "file": f, "k": k, "stratum": f"cx:{d}"}
        for d, f in corpus.fixtures(max_bytes)
        if dialects is None or d in dialects
        for k in range(m)
    ]


def hs_cases(dialects=None, every: int = 1) -> list:
    out = []
    n = len(hostile.strings())
    for di, d in enumerate(dialects or DIALECTS):
        for i in range(n):
            if every > 1 and (i + di) % every:
                continue
            out.append({"id": f"hs:{i}:{d}", "kind": "hs", "n": i, "dialect": d, "stratum": f"hs:{d}"})
    return out


def jj_cases(n: int, flavour: str = "hostile", dialects=("ansi",), start: int = 0) -> list:
    return [
        {"id": f"jj:{flavour}:{i}:{d}", "kind": "jj", "flavour": flavour, "idx": i, "dialect": d, "stratum": f"jj:{flavour}:{d}"}
        for i in range(start, start + n)
        for d in ([dialects[i % len(dialects)]] if len(dialects) > 1 else dialects)
    ]


def py_cases(n: int, lintable: bool = False, dialect: str = "ansi") -> list:
    return [
        {"id": f"py:{int(lintable)}:{i}", "kind": "py", "lintable": lintable, "idx": i, "dialect": dialect, "stratum": f"py:{int(lintable)}"}
        for i in range(n)
    ]


def py2_cases(n: int, dialect: str = "ansi") -> list:
    return [{"id": f"py2:{i}", "kind": "py2", "idx": i, "dialect": dialect, "stratum": "py2"} for i in range(n)]


def ph_cases(n: int, lintable: bool = False, dialect: str = "ansi") -> list:
    return [
        {"id": f"ph:{int(lintable)}:{i}", "kind": "ph", "lintable": lintable, "idx": i, "dialect": dialect, "stratum": f"ph:{int(lintable)}"}
        for i in range(n)
    ]


def rc_cases(rules_prefix: Optional[tuple] = None, kinds=("fail_str", "pass_str")) -> list:
    """Cases from the repo's own rule yaml examples (sql text + per-case configs)."""
    out = []
    for i, (rule, name, sql, configs, kind) in enumerate(corpus.rule_cases()):
        if kind not in kinds:
            continue
        if rules_prefix and not any(rule.startswith(p) for p in rules_prefix):
            continue
        out.append({"id": f"rc:{name}:{kind}", "kind": "rc", "rc_idx": i, "rule": rule, "stratum": f"rc:{rule[:2]}"})
    return out


# ---------------------------------------------------------------- resolver
def resolve(case: dict) -> dict:
    """Return dict(source, dialect, templater, context, features, sections)."""
    k = case["kind"]
    if k == "fx":
        return {"source": corpus.fixture_text(case["dialect"], case["file"]), "dialect": case["dialect"], "templater": "raw", "context": None, "features": [], "sections": None}
    if k == "mx":
        base = corpus.fixture_text(case["dialect"], case["file"])
        return {"source": corpus.mutate(base, f"{case['dialect']}/{case['file']}#{case['k']}"), "dialect": case["dialect"], "templater": "raw", "context": None, "features": [], "sections": None}
    if k == "cx":
        base = corpus.fixture_text(case["dialect"], case["file"])
        return {"source": corpus.commentize(base, f"{case['dialect']}/{case['file']}#{case['k']}"), "dialect": case["dialect"], "templater": "raw", "context": None, "features": [], "sections": None}
    if k == "hs":
        return {"source": hostile.strings()[case["n"]], "dialect": case["dialect"], "templater": "raw", "context": None, "features": [], "sections": None}
    if k == "jj":
        g = jinja_gen.gen(case["idx"], case["flavour"])
        return {"source": g["source"], "dialect": case["dialect"], "templater": "jinja", "context": g["context"], "features": g["features"], "sections": None}
    if k == "py":
        g = tmpl_gen.gen_pyfmt(case["idx"], case["lintable"])
        return {"source": g["source"], "dialect": case["dialect"], "templater": "python", "context": g["context"], "features": g["features"], "sections": None}
    if k == "py2":
        g = tmpl_gen.gen_pyfmt2(case["idx"])
        return {"source": g["source"], "dialect": case["dialect"], "templater": "python", "context": g["context"], "features": g["features"], "sections": None}
    if k == "ph":
        g = tmpl_gen.gen_placeholder(case["idx"], case["lintable"])
        ctx = dict(g["values"])
        ctx["param_style"] = g["style"]
        return {"source": g["source"], "dialect": case["dialect"], "templater": "placeholder", "context": ctx, "features": g["features"], "sections": None, "style": g["style"], "values": g["values"]}
    if k == "rc":
        rule, name, sql, configs, kind = corpus.rule_cases()[case["rc_idx"]]
        configs = configs or {}
        core = dict(configs.get("core") or {})
        dialect = core.pop("dialect", "ansi")
        templater = core.pop("templater", "raw") if isinstance(core.get("templater", "raw"), str) else "raw"
        sections = {kk: vv for kk, vv in configs.items() if kk != "core"}
        if core:
            sections["core"] = core
        return {"source": sql, "dialect": dialect, "templater": templater, "context": None, "features": [], "sections": sections or None, "rule": rule}
    if k == "lit":
        return {"source": case["source"], "dialect": case.get("dialect", "ansi"), "templater": case.get("templater", "raw"), "context": case.get("context"), "features": case.get("features", []), "sections": case.get("sections")}
    raise ValueError(f"unknown case kind {k}")


def text_key(res: dict) -> str:
    return short_hash(res["dialect"] + "|" + res["templater"] + "|" + res["source"])
