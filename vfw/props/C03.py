"""C03 — Parse trees are well-formed and indentation markers balance."""

from vfw.gen.corpus import stratified_sample
from vfw.props import common, parsecase

PROPERTY = "C03"
LEVEL = "exploration"
RULE = (
    "case = (text, dialect[, templater, template_blocks_indent]) from every dialect fixture (each dialect grammar is a separate program), "
    "2 seeded mutants per fixture, hostile strings and generated Jinja templates; oracle walks every node of the returned tree: span = hull of "
    "children, child order, non-code ends, running indent balance >= 0 and 0 at EOF; distinct = content hash; non-trivial = tree with >= 3 leaves"
)
ASSUMPTIONS = ["'positional order' is checked on rendered-side start offsets", "file and unparsable nodes may start/end with non-code (as the statement says)"]
TIMEOUT = {"quick": 300, "thorough": 600}
REQUIRED_COUNTERS = ["nodes_checked", "indent_metas"]
MIN_NONTRIVIAL = {"quick": 100, "thorough": 1000}
FOUR = ("ansi", "postgres", "tsql", "bigquery")


def universe():
    u = common.fx_cases(20000) + common.mx_cases(2, 6000, start=3) + common.hs_cases(every=3)
    jj = common.jj_cases(900, "lintable", FOUR) + common.jj_cases(500, "hostile", FOUR)
    for i, c in enumerate(jj):
        mode = ("default", "force", "off")[i % 3]
        if mode != "default":
            c = dict(c)
            c["core"] = {"template_blocks_indent": "force" if mode == "force" else False}
            c["id"] += f":tbi={mode}"
            c["stratum"] += f":{mode}"
            jj[i] = c
    return u + jj + common.jj_cases(160, "loopsep", FOUR)


def cases(tier, seed):
    # hostile strings are pooled into 4 strata so that fixtures / mutants of every dialect dominate the quick sample
    key = lambda c: ("hs:%d" % (c["n"] % 4)) if c["kind"] == "hs" else c["stratum"]
    return stratified_sample(universe(), key, 1500 if tier == "quick" else 0, seed)


def run_case(case):
    return parsecase.run(case, "C03")
