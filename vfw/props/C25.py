"""C25 — File discovery honours ignore files regardless of path spelling."""

import json
import os
import shutil
import subprocess
import sys
import tempfile

from vfw.core import pool
from vfw.gen.corpus import rng

PROPERTY = "C25"
LEVEL = "exploration"
RULE = (
    "case = small directory tree (depth <= 3; dirs d1, d1/d2, d1/d2/d3, e1 and the prefix-named siblings d1x, d1/d2x; files a.sql b.sql keep.sql Q.SQL x.txt in each) with 1-2 ignore sources (.sqlfluffignore, or ignore_paths in "
    ".sqlfluff / pyproject.toml) placed at any level, patterns from {name, dir/, *.sql, negation, /anchored, **/deep, nested/name}; for each target (root, d1, d1/d2, e1, an exact file) the real "
    "paths_from_path is called with every spelling (relative, ./relative, absolute, trailing slash, a '..' detour, '.' ) in a fresh process whose cwd is the project root (and, for targets under d1 "
    "with all ignore sources under d1, also from cwd=d1); oracle: (i) all spellings select the same set of files, (ii) that set equals an independent os.walk + pathspec model: configured extension "
    "and not matched by any ignore source in a directory from the cwd down to the file's directory (pattern relative to the source's directory); distinct = tree layout hash; non-trivial = >= 1 file ignored and >= 1 selected"
)
ASSUMPTIONS = ["gitignore pattern semantics are those of the pathspec library; negations are only generated for files whose directory is not itself excluded", "ignore sources above the working directory are not generated (their applicability is not decided by the statement)"]
TIMEOUT = {"quick": 600, "thorough": 1200}
MIN_NONTRIVIAL = {"quick": 80, "thorough": 500}
REQUIRED_COUNTERS = ["spellings_compared", "model_comparisons"]
N = 1200
DIRS = ["", "d1", "d1/d2", "d1/d2/d3", "e1", "d1x", "d1/d2x"]
FILES = ["a.sql", "b.sql", "keep.sql", "Q.SQL", "x.txt"]
PATTERNS = ["a.sql", "b.sql", "d2/", "d3/", "*.sql\n!keep.sql", "/a.sql", "**/b.sql", "d2/a.sql", "d1/", "e1/", "keep.sql", "d2/d3/", "*.SQL", "/d1/d2/b.sql", "q.sql", "d1/d2/"]


def gen(idx):
    r = rng("c25", 1, idx)
    dirs = [""] + [d for d in DIRS[1:] if r.random() < 0.8]
    # parents must exist
    dirs = [d for d in dirs if all(p in dirs for p in ["/".join(d.split("/")[:k]) for k in range(1, len(d.split("/")))])]
    sources = []
    for _ in range(r.randint(1, 2)):
        at = r.choice(dirs)
        kind = r.choice([".sqlfluffignore", ".sqlfluffignore", ".sqlfluff", "pyproject.toml"])
        pat = r.choice(PATTERNS)
        if kind != ".sqlfluffignore":
            pat = pat.split("\n")[0]
        if (at, kind) not in [(s[0], s[1]) for s in sources]:
            sources.append((at, kind, pat))
    return {"dirs": dirs, "sources": sources}


def cases(tier, seed):
    import random

    ids = list(range(N))
    random.Random(f"c25:{seed}").shuffle(ids)
    if tier == "quick":
        ids = ids[:320]
    return [{"id": f"tree:{i}", "idx": i} for i in ids]


def build(root, lay):
    for d in lay["dirs"]:
        os.makedirs(os.path.join(root, d), exist_ok=True)
        for f in FILES:
            with open(os.path.join(root, d, f), "w") as fh:
                fh.write("select 1\n")
    for at, kind, pat in lay["sources"]:
        p = os.path.join(root, at, kind)
        if kind == ".sqlfluffignore":
            with open(p, "w") as fh:
                fh.write(pat + "\n")
        elif kind == ".sqlfluff":
            with open(p, "w") as fh:
                fh.write("[sqlfluff]\nignore_paths = " + pat + "\n")
        else:
            with open(p, "w") as fh:
                fh.write('[tool.sqlfluff.core]\nignore_paths = ["' + pat + '"]\n')


def model(root, lay, cwd_rel, target_rel):
    import pathspec

    specs = []
    for at, kind, pat in lay["sources"]:
        specs.append((os.path.normpath(os.path.join(root, at)), pathspec.PathSpec.from_lines("gitignore", pat.split("\n"))))
    cwd = os.path.normpath(os.path.join(root, cwd_rel))
    target = os.path.normpath(os.path.join(root, target_rel))
    out = set()

    def applicable(srcdir, fpath):
        # source must be in a directory from the cwd down to the file's directory
        fd = os.path.dirname(fpath)
        return (fd == srcdir or fd.startswith(srcdir + os.sep)) and (srcdir == cwd or srcdir.startswith(cwd + os.sep))

    def ignored(fpath):
        for sd, spec in specs:
            if applicable(sd, fpath):
                rel = os.path.relpath(fpath, sd)
                if spec.match_file(rel):
                    return True
                # a directory excluded by a spec excludes everything below it
                parts = rel.split(os.sep)
                for k in range(1, len(parts)):
                    if spec.match_file(os.sep.join(parts[:k]) + "/"):
                        return True
        return False

    if os.path.isfile(target):
        cands = [target]
    else:
        cands = [os.path.join(dp, f) for dp, _, fs in os.walk(target) for f in fs]
    for f in cands:
        if f.lower().endswith(".sql") and not ignored(f):
            out.add(f)
    return out


def spellings(root, cwd_rel, target_rel):
    cwd = os.path.normpath(os.path.join(root, cwd_rel))
    t = os.path.normpath(os.path.join(root, target_rel))
    rel = os.path.relpath(t, cwd)
    sp = [rel, os.path.join(".", rel), t]
    if os.path.isdir(t):
        sp.append(rel + os.sep)
        if rel != ".":
            sp.append(os.path.join(rel, "..", os.path.basename(rel)))
            sp.append(os.path.join(os.path.dirname(rel) or ".", ".", os.path.basename(rel)))
    return [s for s in dict.fromkeys(sp)]


def run_case(case):
    lay = gen(case["idx"])
    root = os.path.realpath(tempfile.mkdtemp(prefix="vfw_c25_"))
    fails = []
    counters = {"spellings_compared": 0, "model_comparisons": 0}
    nontrivial = False
    try:
        build(root, lay)
        targets = [d for d in lay["dirs"]]
        r = rng("c25t", case["idx"])
        targets.append(os.path.join(r.choice(lay["dirs"]), r.choice(["a.sql", "keep.sql", "x.txt"])))
        jobs = [("", t) for t in targets]
        if "d1" in lay["dirs"] and all(s[0] == "d1" or s[0].startswith("d1/") for s in lay["sources"]):
            jobs += [("d1", t) for t in targets if t == "d1" or t.startswith("d1/")]
        by_cwd = {}
        for cwd_rel, t in jobs:
            by_cwd.setdefault(cwd_rel, []).append(t)
        for cwd_rel, ts in by_cwd.items():
            req = {t: spellings(root, cwd_rel, t) for t in ts}
            cwd = os.path.join(root, cwd_rel)
            pr = subprocess.run([pool.PYTHON, "-m", "vfw.props.C25", json.dumps(req)], cwd=cwd, capture_output=True, timeout=300, env=pool.worker_env({"HOME": root}))
            try:
                res = json.loads(pr.stdout.decode().strip().splitlines()[-1])
            except Exception:
                return {"status": "harness_error", "detail": pr.stderr.decode()[-800:]}
            for t in ts:
                want = model(root, lay, cwd_rel, t)
                sets = {}
                for s, got in res[t].items():
                    if isinstance(got, dict):
                        fails.append({"sig": f"paths_from_path_raised:{got['error'].split(':')[0]}", "detail": {"spelling": s, "layout": lay, "error": got["error"]}})
                        continue
                    sets[s] = {os.path.normpath(os.path.join(cwd, p)) for p in got}
                vals = list(sets.values())
                counters["spellings_compared"] += len(vals)
                if any(v != vals[0] for v in vals[1:]):
                    fails.append({"sig": "spellings_disagree", "detail": {"layout": lay, "cwd": cwd_rel, "target": t, "results": {s: sorted(os.path.relpath(p, root) for p in v) for s, v in sets.items()}}})
                elif vals:
                    counters["model_comparisons"] += 1
                    if vals[0] != want:
                        fails.append({"sig": "selection_differs_from_model", "detail": {"layout": lay, "cwd": cwd_rel, "target": t, "extra": sorted(os.path.relpath(p, root) for p in vals[0] - want), "missing": sorted(os.path.relpath(p, root) for p in want - vals[0])}})
                    allsql = sum(1 for dp, _, fs in os.walk(os.path.join(root, t)) for f in fs if f.lower().endswith(".sql")) if os.path.isdir(os.path.join(root, t)) else 1
                    if want and len(want) < allsql:
                        nontrivial = True
        seen, uniq = set(), []
        for f in fails:
            if f["sig"] not in seen:
                seen.add(f["sig"])
                uniq.append(f)
        return {
            "status": "fail" if uniq else "pass",
            "failures": uniq,
            "counters": counters,
            "key": case["id"] if nontrivial else None,
            "sample": {"layout": lay, "targets": targets} if case["idx"] % 40 == 0 else None,
        }
    finally:
        shutil.rmtree(root, ignore_errors=True)


if __name__ == "__main__":  # probe: runs in the target cwd, fresh interpreter
    from sqlfluff.core.linter.discovery import paths_from_path

    req = json.loads(sys.argv[1])
    out = {}
    for t, sps in req.items():
        out[t] = {}
        for s in sps:
            try:
                out[t][s] = paths_from_path(s)
            except BaseException as e:
                out[t][s] = {"error": f"{type(e).__name__}: {str(e)[:200]}"}
    print(json.dumps(out))
