"""Per-property oracles over one fix observation (C12, C13, C17)."""

from __future__ import annotations

from vfw.props import common, fixcase


def _key(r, case):
    return common.text_key(r) + "|" + case.get("rules", "")


def _align_diff(a, b):
    """First divergence between two [(raw, cls)] lists + a coarse kind."""
    i = 0
    while i < min(len(a), len(b)) and a[i] == b[i]:
        i += 1
    if i >= len(a) and i >= len(b):
        return None
    ta = a[i] if i < len(a) else ("", "eof")
    tb = b[i] if i < len(b) else ("", "eof")
    kind = "token_boundary_change"
    if ta[0] == tb[0]:
        kind = f"class_change:{ta[1]}->{tb[1]}"
    elif tb[0].startswith(ta[0]) and ta[0]:
        kind = "token_merge"
    elif ta[0].startswith(tb[0]) and tb[0]:
        kind = "token_split"
    return {"index": i, "tree": a[max(0, i - 2) : i + 3], "relex": b[max(0, i - 2) : i + 3], "kind": kind}


def _coalesce_ws(tokens):
    """Adjacent whitespace tokens are one run of whitespace: in templated files the lexer itself splits a
    whitespace run at template-slice boundaries, which is not a fix gluing two tokens."""
    out = []
    for raw, cls in tokens:
        if cls == "whitespace" and out and out[-1][1] == "whitespace":
            out[-1] = (out[-1][0] + raw, "whitespace")
        else:
            out.append((raw, cls))
    return out


def c12(case):
    r, lnt, obs = fixcase.observe(case)
    if lnt is None:
        return {"status": "harness_error", "detail": obs}
    if "raised" in obs or "fix_string_raised" in obs:
        return {"status": "skip", "counters": {"lint_raised": 1}}
    tree = obs["linted"].tree
    if tree is None:
        return {"status": "skip", "counters": {"no_tree": 1}}
    tree_tokens = _coalesce_ws([(s.raw, fixcase.coarse(s)) for s in tree.raw_segments if s.raw != ""])
    relex = _coalesce_ws(fixcase.lex_classes(lnt, tree.raw))
    fails = []
    d = _align_diff(tree_tokens, relex)
    if d:
        fails.append({"sig": d["kind"].split(":")[0], "detail": d})
    changed = bool(obs.get("changed"))
    return {
        "status": "fail" if fails else "pass",
        "failures": fails,
        "counters": {"tokens_compared": len(tree_tokens), "files_changed_by_fix": int(changed)},
        "key": _key(r, case) if changed else None,
        "sample": {"source": r["source"][:160], "fixed": obs["fixed"][:160], "dialect": r["dialect"], "rules": case.get("rules")} if changed and case["kind"] != "fx" else None,
    }


def c13(case):
    if case.get("scan"):
        r, lnt, obs = fixcase.observe(case)
        return {"status": "pass", "counters": {"fixes_rejected_by_validation": obs.get("validation_rejections", 0)}}
    r, lnt, obs = fixcase.observe(case, second_pass=True)
    if lnt is None:
        return {"status": "harness_error", "detail": obs}
    if "raised" in obs or "fix_string_raised" in obs:
        return {"status": "skip", "counters": {"lint_raised": 1}}
    se = obs["src_errs"]
    if se["TMP"] or se["LXR"] or se["PRS"]:
        return {"status": "skip", "counters": {"precondition_not_met": 1}}
    fails = []
    if "pass2_raised" in obs:
        fails.append({"sig": "fixed_text_crashes", "detail": {"err": obs["pass2_raised"]}})
    else:
        pe = obs["pass2_errs"]
        bad = [k for k in ("TMP", "LXR", "PRS") if pe[k]]
        if bad:
            fails.append({"sig": "fixed_text_has_" + "+".join(bad), "detail": {"fixed": obs["fixed"][:400], "source": r["source"][:400]}})
    tree = obs["linted"].tree
    if tree is not None and any(True for _ in tree.iter_unparsables()):
        fails.append({"sig": "fixed_tree_has_unparsable", "detail": {"fixed": obs["fixed"][:400]}})
    changed = bool(obs.get("changed"))
    return {
        "status": "fail" if fails else "pass",
        "failures": fails,
        "counters": {"parsable_sources": 1, "files_changed_by_fix": int(changed), "reparsed_fixed_texts": 1, "fixes_rejected_by_validation": obs.get("validation_rejections", 0)},
        "key": _key(r, case) if changed else None,
        "sample": {"source": r["source"][:160], "fixed": obs["fixed"][:160], "dialect": r["dialect"], "rules": case.get("rules")} if changed and case["kind"] != "fx" else None,
    }


def c17(case):
    r, lnt, obs = fixcase.observe(case, second_pass=True)
    if lnt is None:
        return {"status": "harness_error", "detail": obs}
    if "raised" in obs or "fix_string_raised" in obs:
        return {"status": "skip", "counters": {"lint_raised": 1}}
    if "pass2_raised" in obs:
        return {"status": "skip", "counters": {"pass2_raised": 1}}
    fails = []
    if obs["fixed2"] != obs["fixed"]:
        a, b = obs["fixed"], obs["fixed2"]
        i = 0
        while i < min(len(a), len(b)) and a[i] == b[i]:
            i += 1
        fails.append({"sig": "nonidempotent", "detail": {"pass2_rules": obs.get("pass2_rules"), "at": i, "pass1": a[max(0, i - 60) : i + 60], "pass2": b[max(0, i - 60) : i + 60]}})
    changed = bool(obs.get("changed"))
    return {
        "status": "fail" if fails else "pass",
        "failures": fails,
        "counters": {"second_passes": 1, "files_changed_by_fix": int(changed)},
        "key": _key(r, case) if changed else None,
        "sample": {"source": r["source"][:160], "fixed": obs["fixed"][:160], "dialect": r["dialect"], "rules": case.get("rules")} if changed and case["kind"] != "fx" else None,
    }
