"""C11 — Fixing preserves all untouched text byte-for-byte."""

import os
import shutil
import subprocess
import tempfile

from vfw.core import pool
from vfw.gen.corpus import rng

PROPERTY = "C11"
LEVEL = "exploration"
RULE = (
    "case = generated file built from lines that are either 'clean' (nothing to fix; carry non-ASCII text, or bytes undecodable in the configured encoding, inside comments / string literals) or "
    "'fixable' (LT01 + CP01 violations confined to that line), written in an encoding {utf-8, utf-8-sig, utf-16, latin-1, cp1252} with config encoding explicit or autodetect, line endings "
    "{LF, CRLF, CR, mixed}, 3..220 lines (non-ASCII text early or only after byte 4096), or no fixable line at all; the real CLI 'sqlfluff fix' runs in a fresh process; oracle (after normalising "
    "line endings to LF on both sides): the output has the same number of lines, every clean line is byte-identical, a fixed line equals its original once whitespace and letter case are ignored; a file with no applicable fix keeps bytes, inode and "
    "mtime; distinct = parameter tuple + content hash; non-trivial = at least one line was fixed and at least one clean line carries non-ASCII bytes"
)
ASSUMPTIONS = ["line-level comparison: the generated fixes never add or remove lines (LT01/CP01 only)"]
TIMEOUT = {"quick": 900, "thorough": 1800}
MIN_NONTRIVIAL = {"quick": 40, "thorough": 300}
REQUIRED_COUNTERS = ["clean_lines_compared", "files_fixed"]
N = 1000
ENC = ["utf-8", "utf-8-sig", "utf-16", "latin-1", "cp1252"]
CLEAN = ["select a from t;", "select 'café' as a from t;", "select a from t; -- naïve ünïcode", "select 'x' as b from u; /* ß */", "select a from t where b = 'Ωμέγα';", "select 1 from t; -- 日本語"]
FIXABLE = ["SELECT a,b from t;", "select a,b from t where c in (1,2);", "SELECT 'é' as a,b from t;", "select  a from t; -- trailing ü",
           "select a from t; {# keep this note #}  ", "select a from t where b = 1; {# ñote #}   ", "{% if true %}select 1;{% endif %}  ", "select a from t; {{ '' }}  "]
RAWBYTES = [b"select a from t; -- \xff\xfe raw", b"select '\xe9\xe8' as a from t;", b"select a from t; /* \x80\x81 */"]


def gen(idx):
    r = rng("c11", 1, idx)
    enc = ENC[idx % len(ENC)]
    cfg_enc = r.choice([enc, enc, "autodetect"]) if enc in ("utf-8", "latin-1", "cp1252") else "autodetect"
    if enc == "utf-8-sig" and r.random() < 0.5:
        cfg_enc = "utf-8-sig"
    eol = r.choice(["lf", "lf", "crlf", "cr", "mixed"])
    nlines = r.choice([3, 5, 8, 12, 40, 220])
    late = nlines >= 40 and r.random() < 0.6  # non-ASCII only near the end (beyond byte 4096 for 220 lines)
    nofix = r.random() < 0.12
    raw = enc in ("utf-8",) and r.random() < 0.25  # undecodable bytes in the configured encoding
    lines = []
    for i in range(nlines):
        is_fix = (not nofix) and (i > 0) and r.random() < 0.3
        if is_fix:
            lines.append(("fix", r.choice(FIXABLE if not late or i > nlines - 4 else FIXABLE[:2])))
        else:
            if late and i < nlines - 3:
                lines.append(("clean", CLEAN[0]))
            else:
                lines.append(("clean", r.choice(CLEAN)))
    if raw:
        j = r.randrange(1, len(lines))
        lines[j] = ("cleanraw", r.choice(RAWBYTES))
    if not nofix and not any(k == "fix" for k, _ in lines):
        lines[-1] = ("fix", FIXABLE[0])
    return {"enc": enc, "cfg_enc": cfg_enc, "eol": eol, "lines": lines, "late": late, "raw": raw, "nofix": nofix}


def cases(tier, seed):
    import random

    ids = list(range(N))
    random.Random(f"c11:{seed}").shuffle(ids)
    if tier == "quick":
        ids = ids[:200]
    return [{"id": f"file:{i}", "idx": i} for i in ids]


def encode_line(kind, content, enc):
    if kind == "cleanraw":
        return content
    e = "utf-8" if enc == "utf-8-sig" else ("utf-16-le" if enc == "utf-16" else enc)
    return content.encode(e, "replace")


def run_case(case):
    g = gen(case["idx"])
    root = os.path.realpath(tempfile.mkdtemp(prefix="vfw_c11_"))
    fails = []
    try:
        enc = g["enc"]
        r = rng("c11eol", case["idx"])
        e16 = enc == "utf-16"
        nl = {"lf": "\n", "crlf": "\r\n", "cr": "\r"}
        blines = []
        body = b""
        for kind, content in g["lines"]:
            eol = nl[g["eol"]] if g["eol"] != "mixed" else r.choice(["\n", "\r\n", "\n", "\r"])
            bl = encode_line(kind, content, enc)
            blines.append(bl)
            body += bl + (eol.encode("utf-16-le") if e16 else eol.encode())
        bom = b"\xef\xbb\xbf" if enc == "utf-8-sig" else (b"\xff\xfe" if e16 else b"")
        data = bom + body
        with open(os.path.join(root, ".sqlfluff"), "w") as f:
            f.write(f"[sqlfluff]\ndialect = ansi\nrules = LT01,CP01\nencoding = {g['cfg_enc']}\n[sqlfluff:rules:capitalisation.keywords]\ncapitalisation_policy = lower\n")
        p = os.path.join(root, "f.sql")
        with open(p, "wb") as f:
            f.write(data)
        st0 = os.stat(p)
        pr = subprocess.run([pool.PYTHON, "-m", "sqlfluff", "fix", "f.sql", "--nocolor"], cwd=root, capture_output=True, timeout=600, env=pool.worker_env({"HOME": root}))
        st1 = os.stat(p)
        with open(p, "rb") as f:
            out = f.read()
        classes = []
        if g["raw"]:
            classes.append("bytes.undecodable_in_configured_encoding")
        if enc in ("latin-1", "cp1252") and g["cfg_enc"] == "autodetect":
            classes.append("enc.autodetect_8bit")
        counters = {"clean_lines_compared": 0, "files_fixed": 0}
        if g["nofix"]:
            if out != data or (st0.st_ino, st0.st_mtime_ns) != (st1.st_ino, st1.st_mtime_ns):
                fails.append({"sig": "file_without_fixes_rewritten", "detail": {"changed_bytes": out != data, "params": {k: g[k] for k in ("enc", "cfg_enc", "eol")}, "stdout": pr.stdout.decode("utf-8", "replace")[-300:]}})
            counters["noop_files_checked"] = 1
            key = None
        else:
            def norm(b):
                if e16:
                    t = b[2:] if b[:2] in (b"\xff\xfe", b"\xfe\xff") else b
                    t = t.replace("\r\n".encode("utf-16-le"), "\n".encode("utf-16-le")).replace("\r".encode("utf-16-le"), "\n".encode("utf-16-le"))
                    return t.split("\n".encode("utf-16-le"))
                t = b[len(bom):] if bom and b.startswith(bom) else b
                return t.replace(b"\r\n", b"\n").replace(b"\r", b"\n").split(b"\n")

            if out == data:
                # nothing was written (e.g. the only fix sits next to a template tag and sqlfluff declines it):
                # trivially preserves every byte; not a decided case for this property
                counters["fixable_file_left_unchanged"] = 1
            else:
                counters["files_fixed"] = 1
                if bom and not out.startswith(bom):
                    fails.append({"sig": "bom_lost", "detail": {"head": out[:6].hex()}})
                ol = norm(out)
                if ol and ol[-1] == b"":
                    ol = ol[:-1]
                if len(ol) != len(blines):
                    fails.append({"sig": "line_count_changed", "detail": {"before": len(blines), "after": len(ol), "params": {k: g[k] for k in ("enc", "cfg_enc", "eol", "late", "raw")}}})
                else:
                    for i, ((kind, _), b0, b1) in enumerate(zip(g["lines"], blines, ol)):
                        if kind == "fix":
                            # LT01 / CP01 may only add or remove whitespace and change letter case on this line
                            import re as _re

                            sq = lambda b: _re.sub(r"\s+", "", b.decode("utf-16-le" if e16 else "latin-1", "replace")).lower()
                            if sq(b0) != sq(b1):
                                fails.append({"sig": "fixed_line_changed_beyond_its_fix", "detail": {"line": i + 1, "before_txt": b0[:100].decode("latin-1"), "after_txt": b1[:100].decode("latin-1"), "params": {k: g[k] for k in ("enc", "cfg_enc", "eol")}}})
                                break
                        if kind != "fix":
                            counters["clean_lines_compared"] += 1
                            if b0 != b1:
                                fails.append({"sig": "untouched_line_changed" + (":raw_bytes" if kind == "cleanraw" else ""), "detail": {"line": i + 1, "before": b0[:80].hex(), "after": b1[:80].hex(), "before_txt": b0[:80].decode("latin-1"), "after_txt": b1[:80].decode("latin-1"), "params": {k: g[k] for k in ("enc", "cfg_enc", "eol", "late", "raw")}}})
                                break
            nonascii_clean = any(k != "fix" and any(c > 127 for c in encode_line(k, c_, "utf-8" if enc != "utf-16" else "utf-8")) for k, c_ in g["lines"])
            key = case["id"] if counters["files_fixed"] and nonascii_clean else None
        return {
            "status": "fail" if fails else "pass",
            "failures": fails[:2],
            "classes": classes,
            "counters": counters,
            "key": key,
            "sample": {"params": {k: g[k] for k in ("enc", "cfg_enc", "eol", "late", "raw", "nofix")}, "lines": len(g["lines"]), "bytes": len(data), "head": data[:60].decode("latin-1")} if case["idx"] % 40 == 0 else None,
        }
    finally:
        shutil.rmtree(root, ignore_errors=True)
