"""C19 — All entry points agree (path vs stdin --stdin-filename vs Python API)."""

from vfw.gen.corpus import short_hash
from vfw.props import cliscen

PROPERTY = "C19"
LEVEL = "exploration"
RULE = (
    "case = generated project (SQL of 1-4 statements: clean / fixable / unfixable / unparsable / Jinja-templated / undefined variable / noqa'd / inline '-- sqlfluff:' directives; "
    ".sqlfluff with rule selection, warnings=, ignore=, templater + context, optional nested config in the file's sub-directory); each of: sqlfluff lint <path> --format json, "
    "lint - --stdin-filename <path>, sqlfluff.lint(config=FluffConfig.from_path), fix <path>, fix - --stdin-filename <path>, sqlfluff.fix(...) runs in a fresh process started in the project "
    "directory; oracle: identical violation sets (code,line,col,description,warning), identical fixed text, identical exit status between path and stdin; distinct = scenario hash; "
    "non-trivial = at least one violation reported or fix changed the text"
)
ASSUMPTIONS = ["the API has no exit status; exit status is compared between the two CLI routes", "the API route is given FluffConfig.from_path(<file>) - the configuration the CLI derives for that file"]
TIMEOUT = {"quick": 900, "thorough": 1800}
MIN_NONTRIVIAL = {"quick": 25, "thorough": 250}
REQUIRED_COUNTERS = ["lint_triples_compared", "fix_triples_compared"]
N = 600


def cases(tier, seed):
    import random

    ids = list(range(N))
    random.Random(f"c19:{seed}").shuffle(ids)
    if tier == "quick":
        # stratified over (warnings= value, file has a parse/templating error, file has a fixable violation), so that
        # every suppression mode meets an error file with something to fix in every quick run
        from vfw.gen.corpus import stratified_sample

        def stratum(i):
            sc = cliscen.gen(i)
            t = set(sc["tags"])
            return (str(sc["config"]["core"].get("warnings")), bool(t & {"prs", "tmp", "tmp_fatal"}), "fixable" in t)

        ids = stratified_sample(ids, stratum, 72, seed)
    return [{"id": f"scen:{i}", "idx": i} for i in ids]


def run_case(case):
    scen = cliscen.gen(case["idx"])
    pj = cliscen.Project(scen)
    fails = []
    counters = {}
    try:
        sql = scen["sql"]
        rc_p, out_p, err_p = pj.cli(["lint", pj.rel, "--format", "json", "--nocolor"])
        rc_s, out_s, err_s = pj.cli(["lint", "-", "--stdin-filename", pj.rel, "--format", "json", "--nocolor"], stdin=sql)
        api_l = pj.api("lint")
        try:
            v_p, v_s = cliscen.vset_from_json(out_p), cliscen.vset_from_json(out_s)
        except Exception as e:
            return {"status": "skip", "counters": {"unreadable_cli_json": 1}, "detail": (out_p[-300:], err_p[-300:], out_s[-200:], err_s[-200:])}
        counters["lint_triples_compared"] = 1
        if v_p != v_s:
            fails.append({"sig": "lint_path_vs_stdin_violations_differ", "detail": {"only_path": sorted(v_p - v_s)[:4], "only_stdin": sorted(v_s - v_p)[:4], "scenario": scen}})
        if rc_p != rc_s:
            fails.append({"sig": "lint_path_vs_stdin_exit_differs", "detail": {"path": rc_p, "stdin": rc_s, "scenario": scen}})
        if "violations" in api_l:
            v_a = {tuple(x) for x in api_l["violations"]}
            if v_a != v_p:
                fails.append({"sig": "lint_api_vs_path_violations_differ", "detail": {"only_path": sorted(v_p - v_a)[:4], "only_api": sorted(v_a - v_p)[:4], "scenario": scen}})
        else:
            counters["api_lint_error"] = 1
            if rc_p in (0, 1):
                fails.append({"sig": "api_lint_raised_where_cli_succeeds", "detail": {"api": api_l, "scenario": scen}})
        # fix
        rc_fp, out_fp, err_fp = pj.cli(["fix", pj.rel, "--nocolor"])
        fixed_p = pj.read()
        pj.write()
        rc_fs, fixed_s, err_fs = pj.cli(["fix", "-", "--stdin-filename", pj.rel, "--nocolor"], stdin=sql)
        api_f = pj.api("fix")
        counters["fix_triples_compared"] = 1
        if fixed_p != fixed_s:
            fails.append({"sig": "fix_path_vs_stdin_text_differs", "detail": {"path": fixed_p[:300], "stdin": fixed_s[:300], "scenario": scen, "stderr_stdin": err_fs[-200:]}})
        if rc_fp != rc_fs:
            fails.append({"sig": "fix_path_vs_stdin_exit_differs", "detail": {"path": rc_fp, "stdin": rc_fs, "scenario": scen, "out_path": out_fp[-300:], "err_stdin": err_fs[-300:]}})
        if "fixed" in api_f:
            if api_f["fixed"] != fixed_p:
                fails.append({"sig": "fix_api_vs_path_text_differs", "detail": {"path": fixed_p[:300], "api": api_f["fixed"][:300], "scenario": scen}})
        else:
            counters["api_fix_error"] = 1
            if rc_fp in (0, 1):
                fails.append({"sig": "api_fix_raised_where_cli_succeeds", "detail": {"api": api_f, "scenario": scen}})
        nontrivial = bool(v_p) or fixed_p != sql
        classes = []
        if set(scen["tags"]) & {"prs", "tmp", "tmp_fatal"}:
            classes.append("scen.has_tmp_or_prs_error")
        if "tmp_fatal" in scen["tags"]:
            classes.append("scen.fatal_template_error")
        return {
            "status": "fail" if fails else "pass",
            "failures": fails,
            "classes": classes,
            "counters": counters,
            "key": short_hash(repr(scen)) if nontrivial else None,
            "sample": {"sql": sql, "config": scen["config"]["core"], "violations": len(v_p), "exit": [rc_p, rc_fp], "changed": fixed_p != sql} if case["idx"] % 25 == 0 else None,
        }
    finally:
        pj.close()
