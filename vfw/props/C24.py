"""C24 — Parallel and serial runs agree (schedule injection at the process level)."""

import glob
import json
import os
import shutil
import subprocess
import tempfile

from vfw.core import pool, sf
from vfw.gen.corpus import rng
from vfw.props import cliscen

PROPERTY = "C24"
LEVEL = "exploration"
RULE = (
    "case = generated directory of 6-12 files (clean, fixable, unfixable, unparsable, Jinja with config-file context, inline config, nested .sqlfluff in a sub-directory, one oversized file "
    "with a byte limit) x worker count in {2,4,8} x delay schedule x {lint, fix}; the real CLI is run once with --processes 1 and once with --processes N with a monitor installed (via "
    "sitecustomize) in the parent and every spawn-context pool worker that delays each file's _apply by a schedule-dependent 0-300 ms and logs completion, forcing different completion orders; "
    "also with the file list permuted on the command line; oracle: per-file violation records (timings stripped), fixed file bytes and exit status identical; "
    "distinct = (directory, N, schedule, mode); non-trivial = the monitor saw >= 2 worker processes and a completion order different from the submission order"
)
ASSUMPTIONS = ["schedules are produced by sleeping inside the worker before the real _apply body (an existing suspension point between tasks)"]
TIMEOUT = {"quick": 1200, "thorough": 2400}
MIN_NONTRIVIAL = {"quick": 8, "thorough": 60}
REQUIRED_COUNTERS = ["parallel_runs", "worker_pids_seen", "reordered_completions"]
NDIRS = 30
JOBS = 6  # each case itself starts up to 8 worker processes


def cases(tier, seed):
    import random

    out = []
    for d in range(NDIRS):
        for n in (2, 4, 8):
            for sched in (0, 1, 2, 3):
                for mode in ("lint", "fix"):
                    out.append({"id": f"dir:{d}|p={n}|s={sched}|{mode}", "dir": d, "procs": n, "sched": sched, "mode": mode})
    r = random.Random(f"c24:{seed}")
    r.shuffle(out)
    if tier == "quick":
        return out[:24]
    return out


def build(root, d):
    r = rng("c24-dir", 1, d)
    files = {}
    n = r.randint(6, 12)
    frs = cliscen.FRAGMENTS
    for i in range(n):
        k = r.randint(1, 3)
        lines = [r.choice([f for f in frs if "tmp_fatal" not in f[1]])[0] for _ in range(k)]
        inline = r.choice(["", "", "-- sqlfluff:rules:LT01\n", "-- sqlfluff:max_line_length:20\n"])
        sub = r.choice(["", "", "sub", "sub/deep"])
        files[os.path.join(sub, f"f{i:02d}.sql")] = inline + "\n".join(lines) + "\n"
    files["big.sql"] = "select " + ", ".join(f"col_{j}" for j in range(400)) + " from t;\n"
    cfg = {"core": {"dialect": "ansi", "templater": "jinja", "rules": "LT01,LT02,CP01,RF02,LT12,AL01", "large_file_skip_byte_limit": "2000"}, "templater": {"jinja": {"context": {"col": "a"}}}}
    if r.random() < 0.5:
        cfg["core"]["warnings"] = r.choice(["LT01", "CP01,RF02"])
    if r.random() < 0.3:
        cfg["core"]["large_file_skip_fail"] = "True"
    sf.write_ini(root, cfg)
    for rel, txt in files.items():
        p = os.path.join(root, rel)
        os.makedirs(os.path.dirname(p), exist_ok=True)
        with open(p, "w", encoding="utf-8", newline="") as f:
            f.write(txt)
    if any(k.startswith("sub") for k in files):
        sf.write_ini(os.path.join(root, "sub"), {"rules": {"capitalisation.keywords": {"capitalisation_policy": "upper"}}})
    return sorted(files)


def snapshot(root):
    out = {}
    for dp, _, fs in os.walk(root):
        for f in fs:
            if f.endswith(".sql"):
                p = os.path.join(dp, f)
                with open(p, "rb") as fh:
                    out[os.path.relpath(p, root)] = fh.read()
    return out


def run_cli(root, args, monitors=False, sched="0", evdir=None):
    extra = {"HOME": root}
    env = pool.worker_env(extra)
    if monitors:
        env["VP_MONITORS"] = "runner"
        env["VP_EVENT_DIR"] = evdir
        env["VP_DELAY_SCHEDULE"] = str(sched)
        env["PYTHONPATH"] = os.path.join(pool.ROOT, "vfw", "site") + os.pathsep + env["PYTHONPATH"]
    pr = subprocess.run([pool.PYTHON, "-m", "sqlfluff"] + args, cwd=root, capture_output=True, timeout=900, env=env)
    return pr.returncode, pr.stdout.decode("utf-8", "replace"), pr.stderr.decode("utf-8", "replace")


def records(out):
    recs = json.loads(out)
    res = {}
    for rec in recs:
        vs = sorted(json.dumps({k: v for k, v in x.items()}, sort_keys=True) for x in rec["violations"])
        res[os.path.normpath(rec["filepath"])] = vs
    return res


def run_case(case):
    base = os.path.realpath(tempfile.mkdtemp(prefix="vfw_c24_"))
    fails = []
    counters = {"parallel_runs": 0, "worker_pids_seen": 0, "reordered_completions": 0}
    try:
        a, b, ev = os.path.join(base, "serial"), os.path.join(base, "par"), os.path.join(base, "ev")
        for d in (a, b, ev):
            os.makedirs(d)
        files = build(a, case["dir"])
        build(b, case["dir"])
        mode = case["mode"]
        r = rng("c24-perm", case["id"])
        if mode == "lint":
            rc_s, out_s, err_s = run_cli(a, ["lint", ".", "--format", "json", "--processes", "1", "--nocolor"])
            perm = list(files)
            r.shuffle(perm)
            par_args = ["lint"] + (perm if case["sched"] % 2 else ["."]) + ["--format", "json", "--processes", str(case["procs"]), "--nocolor"]
            rc_p, out_p, err_p = run_cli(b, par_args, monitors=True, sched=case["sched"], evdir=ev)
            try:
                rs, rp = records(out_s), records(out_p)
            except Exception:
                return {"status": "skip", "counters": {"unreadable_json": 1}, "detail": (out_s[-300:], err_s[-300:], out_p[-300:], err_p[-300:])}
            if rs != rp:
                diff = [k for k in set(rs) | set(rp) if rs.get(k) != rp.get(k)]
                fails.append({"sig": "per_file_violations_differ", "detail": {"files": diff[:4], "serial": {k: rs.get(k) for k in diff[:2]}, "parallel": {k: rp.get(k) for k in diff[:2]}}})
        else:
            rc_s, out_s, err_s = run_cli(a, ["fix", ".", "--processes", "1", "--nocolor"])
            rc_p, out_p, err_p = run_cli(b, ["fix", ".", "--processes", str(case["procs"]), "--nocolor"], monitors=True, sched=case["sched"], evdir=ev)
            sa, sb = snapshot(a), snapshot(b)
            if sa != sb:
                diff = [k for k in set(sa) | set(sb) if sa.get(k) != sb.get(k)]
                fails.append({"sig": "fixed_files_differ", "detail": {"files": diff[:4], "serial": {k: sa.get(k, b"")[:200].decode("utf-8", "replace") for k in diff[:2]}, "parallel": {k: sb.get(k, b"")[:200].decode("utf-8", "replace") for k in diff[:2]}}})
            stray = [f for f in os.listdir(b) if f not in os.listdir(a)]
            if stray:
                fails.append({"sig": "parallel_run_left_extra_files", "detail": {"stray": stray}})
        if rc_s != rc_p:
            fails.append({"sig": f"exit_status_differs:serial={rc_s},parallel={rc_p}", "detail": {"stderr_serial": err_s[-300:], "stderr_parallel": err_p[-300:]}})
        # monitor evidence
        evs = []
        for fn in glob.glob(os.path.join(ev, "*.jsonl")):
            with open(fn) as f:
                evs += [json.loads(l) for l in f if l.strip()]
        applies = sorted([e for e in evs if e["ev"] == "apply"], key=lambda e: e["end"])
        pids = {e["pid"] for e in applies}
        order = [os.path.basename(e["fname"]) for e in applies]
        counters["parallel_runs"] = 1
        counters["worker_pids_seen"] = len(pids)
        reordered = order != sorted(order)
        counters["reordered_completions"] = int(reordered)
        counters["files_applied_in_workers"] = len(applies)
        errs = glob.glob(os.path.join(ev, "*.err"))
        if errs:
            return {"status": "harness_error", "detail": open(errs[0]).read()[:500]}
        return {
            "status": "fail" if fails else "pass",
            "failures": fails,
            "counters": counters,
            "key": case["id"] + "|" + ">".join(order)[:200] if len(pids) >= 2 and reordered else None,
            "sample": {"dir": case["dir"], "processes": case["procs"], "schedule": case["sched"], "mode": mode, "completion_order": order, "worker_pids": len(pids), "exit": [rc_s, rc_p]},
        }
    finally:
        shutil.rmtree(base, ignore_errors=True)
