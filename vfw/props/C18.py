"""C18 — Files with template or parse errors are never modified by fix."""

import logging
import os

from vfw.core import sf
from vfw.gen.corpus import rng, short_hash
from vfw.props import cliscen

PROPERTY = "C18"
LEVEL = "exploration"
RULE = (
    "(a) case = generated project whose file has at least one templating or parsing error (unterminated clause, unbalanced bracket, undefined Jinja variable, fatal Jinja syntax error) plus fixable "
    "violations elsewhere, under a suppression mode (none, '-- noqa', '-- noqa: PRS', '-- noqa: disable=all', ignore=parsing/templating, warnings=PRS) with fix_even_unparsable off; ground truth "
    "'has a TMP/PRS error' comes from an unfiltered API run; then in fresh processes: sqlfluff fix <path>, format <path> (file bytes, inode and mtime must be unchanged), fix - / format - "
    "(stdout must equal stdin), sqlfluff.fix() (must return its input); (b) loop limit: fixable inputs linted with runaway_limit 1..2 - when the linter logs 'Loop limit on fixes reached' the "
    "fixed text must equal the source and every lint violation must carry no fixes; distinct = scenario hash; non-trivial = the file really has a TMP/PRS error and a fixable violation, resp. the loop limit was hit"
)
ASSUMPTIONS = ["bytes + inode + mtime_ns equality is taken as 'file not modified'"]
TIMEOUT = {"quick": 900, "thorough": 1800}
MIN_NONTRIVIAL = {"quick": 25, "thorough": 200}
REQUIRED_COUNTERS = ["entry_points_checked", "loop_limit_hits"]
N = 500
LOOP_SQL = [
    "SELECT a,b from t\n", "select  a ,b,c  from   t   where x=1\n", "SELECT\na,\nb\nfrom t\n", "select a from t join u on t.x=u.x  where  y = 1   \n\n\n",
    "SELECT a as b,c  FROM t group by  1\n", "select case when a then b end,c from t\n", "select  *  from  ( select a,b from t )  x\n", "select a from t\n",
]


def cases(tier, seed):
    import random

    ids = list(range(N))
    random.Random(f"c18:{seed}").shuffle(ids)
    if tier == "quick":
        ids = ids[:50]
    out = [{"id": f"err:{i}", "kind": "err", "idx": i} for i in ids]
    loops = [{"id": f"loop:{i}:{lim}:{rs}", "kind": "loop", "i": i, "limit": lim, "rules": rs} for i in range(len(LOOP_SQL)) for lim in (1, 2) for rs in ("all", "core", "layout")]
    return out + loops


class _Listen(logging.Handler):
    def __init__(self):
        super().__init__(level=logging.WARNING)
        self.hit = 0

    def emit(self, record):
        if "Loop limit on fixes reached" in str(record.msg):
            self.hit += 1


def run_loop(case):
    from sqlfluff.core.errors import SQLLintError

    src = LOOP_SQL[case["i"]]
    rules = None if case["rules"] == "all" else case["rules"]
    lnt = sf.make_linter("ansi", rules=rules, core={"runaway_limit": case["limit"]})
    h = _Listen()
    lg = logging.getLogger("sqlfluff.linter")
    lg.addHandler(h)
    try:
        linted = lnt.lint_string(src, fix=True)
        fixed, _ = linted.fix_string()
    except Exception as e:
        return {"status": "skip", "counters": {"lint_raised": 1}, "detail": repr(e)[:200]}
    finally:
        lg.removeHandler(h)
    fails = []
    if h.hit:
        if fixed != src:
            fails.append({"sig": "loop_limit_hit_but_file_changed", "detail": {"source": src, "fixed": fixed, "limit": case["limit"]}})
        withfix = [v.rule_code() for v in linted.get_violations(types=SQLLintError) if v.fixes]
        if withfix:
            fails.append({"sig": "loop_limit_hit_but_violations_still_fixable", "detail": {"codes": withfix[:6], "source": src}})
    return {
        "status": "fail" if fails else "pass",
        "failures": fails,
        "counters": {"loop_limit_hits": h.hit, "loop_cases": 1, "entry_points_checked": 0},
        "key": case["id"] if h.hit else None,
        "sample": {"source": src, "limit": case["limit"], "rules": case["rules"], "loop_limit_hit": bool(h.hit), "fixed": fixed} if case["i"] == 0 else None,
    }


def run_case(case):
    if case["kind"] == "loop":
        return run_loop(case)
    scen = cliscen.gen(case["idx"], "errfile")
    scen["config"]["core"].pop("fix_even_unparsable", None)
    scen["config"]["core"].pop("runaway_limit", None)
    pj = cliscen.Project(scen)
    fails = []
    counters = {"entry_points_checked": 0, "loop_limit_hits": 0}
    try:
        m = pj.api("model")
        if "shown" not in m:
            return {"status": "skip", "counters": {"model_run_failed": 1}, "detail": m}
        if m["truth_tmp_prs"] == 0:
            return {"status": "skip", "counters": {"no_tmp_prs_error_after_all": 1}}
        sql = scen["sql"]
        st0 = os.stat(pj.path)
        for cmd in ("fix", "format"):
            rc, out, err = pj.cli([cmd, pj.rel, "--nocolor"])
            st1 = os.stat(pj.path)
            counters["entry_points_checked"] += 1
            now = pj.read()
            if now != sql:
                fails.append({"sig": f"{cmd}_path_modified_file_with_error", "detail": {"before": sql, "after": now, "scenario": scen, "rc": rc}})
                pj.write()
                st0 = os.stat(pj.path)
            elif (st1.st_ino, st1.st_mtime_ns) != (st0.st_ino, st0.st_mtime_ns):
                fails.append({"sig": f"{cmd}_path_rewrote_file_with_error", "detail": {"scenario": scen}})
                st0 = st1
            rc, out, err = pj.cli([cmd, "-", "--stdin-filename", pj.rel, "--nocolor"], stdin=sql)
            counters["entry_points_checked"] += 1
            if out != sql:
                fails.append({"sig": f"{cmd}_stdin_output_differs_from_input", "detail": {"stdin": sql, "stdout": out, "scenario": scen, "rc": rc}})
        a = pj.api("fix")
        counters["entry_points_checked"] += 1
        if "fixed" in a:
            if a["fixed"] != sql:
                fails.append({"sig": "api_fix_modified_sql_with_error", "detail": {"input": sql, "output": a["fixed"], "scenario": scen}})
        else:
            fails.append({"sig": "api_fix_raised", "detail": {"api": a, "scenario": scen}})
        fixable_present = any(fx for _, _, fx, _ in m["shown"]) or "fixable" in scen["tags"]
        return {
            "status": "fail" if fails else "pass",
            "failures": fails,
            "counters": counters,
            "key": short_hash(repr(scen)) if fixable_present else None,
            "sample": {"sql": sql, "config": scen["config"]["core"], "tmp_prs_errors": m["truth_tmp_prs"]} if case["idx"] % 25 == 0 else None,
        }
    finally:
        pj.close()
