"""Shared scenario generator + real-CLI / API drivers for C18, C19, C22.

A scenario = (SQL text built from line fragments, project config written as a
``.sqlfluff`` file, suppression mode).  Every entry point runs in a fresh
process started inside a scratch project directory with HOME pointed at it.
"""

from __future__ import annotations

import json
import os
import shutil
import subprocess
import sys
import tempfile

from vfw.core import pool
from vfw.gen.corpus import rng

# (fragment, tags) -- one statement per line
FRAGMENTS = [
    ("select a from t;", set()),
    ("SELECT a,b from t;", {"fixable"}),
    ("select  a from t;", {"fixable"}),
    ("select a from t  ;", {"fixable"}),
    ("select a from t join u on t.x = u.x;", {"unfixable"}),
    ("SELECT a from t join u on t.x = u.x;", {"fixable", "unfixable"}),
    ("select a from t where;", {"prs"}),
    ("select (a from t;", {"prs"}),
    ("SELECT a,b from t where;", {"prs", "fixable"}),
    ("select {{ col }} from t;", {"jinja"}),
    ("SELECT {{ col }},b from t;", {"jinja", "fixable"}),
    ("select {{ undefined_thing }} from t;", {"jinja", "tmp"}),
    ("select a from t; {% if %}", {"jinja", "tmp_fatal"}),
]
NOQA = ["", "", " -- noqa", " -- noqa: PRS", " -- noqa: LT01,CP01", " -- noqa: disable=all"]
INLINE = [
    "",
    "-- sqlfluff:rules:capitalisation.keywords:capitalisation_policy:upper\n",
    "-- sqlfluff:rules:LT01\n",
    "-- sqlfluff:exclude_rules:CP01\n",
    "-- sqlfluff:max_line_length:20\n",
    "--sqlfluff:rules:LT01\n",
    "--sqlfluff:exclude_rules:CP01\n",
    "--sqlfluff:rules:capitalisation.keywords:capitalisation_policy:upper\n",
]
RULESETS = ["LT01,CP01,RF02,LT12", "core", "LT01,LT02,CP01,CP02,AL01,RF02,LT12", None]
WARNINGS = [None, None, "LT01", "CP01,RF02", "PRS", "LT01,CP01,RF02,LT12,LT02,AL01,CP02"]
IGNORE = [None, None, "parsing", "templating", "parsing,templating", "lexing"]


def gen(idx: int, want: str = "any") -> dict:
    """want: any | errfile (must contain a TMP/PRS error) | clean-ish."""
    r = rng("cliscen", 1, want, idx)
    n = r.randint(1, 4)
    frs = []
    pool_fr = FRAGMENTS
    use_jinja = r.random() < 0.3
    cand = [f for f in pool_fr if ("jinja" in f[1] or "tmp" in f[1] or "tmp_fatal" in f[1]) == False or use_jinja]
    for _ in range(n):
        frs.append(r.choice(cand))
    if want == "errfile" and not any(t & {"prs", "tmp", "tmp_fatal"} for _, t in frs):
        frs[r.randrange(len(frs))] = r.choice([f for f in cand if f[1] & {"prs", "tmp", "tmp_fatal"}])
    lines = []
    for f, tags in frs:
        lines.append(f + (r.choice(NOQA) if r.random() < 0.35 else ""))
    inline = r.choice(INLINE) if r.random() < 0.3 else ""
    tail = r.choice(["\n", "\n", "", "\n\n"])
    sql = inline + "\n".join(lines) + tail
    tags = set().union(*[t for _, t in frs]) if frs else set()
    core = {"dialect": "ansi"}
    rs = r.choice(RULESETS)
    if rs:
        core["rules"] = rs
    w = r.choice(WARNINGS)
    if w:
        core["warnings"] = w
    ig = r.choice(IGNORE)
    if ig:
        core["ignore"] = ig
    if use_jinja:
        core["templater"] = "jinja"
    else:
        core["templater"] = r.choice(["raw", "raw", "jinja"])
    if r.random() < 0.08:
        core["fix_even_unparsable"] = "True"
    if r.random() < 0.1:
        core["runaway_limit"] = r.choice(["1", "2"])
    cfg = {"core": core}
    if core["templater"] == "jinja":
        cfg["templater"] = {"jinja": {"context": {"col": "a"}}}
    nested = None
    if r.random() < 0.25:  # nested config in the file's sub-directory
        nested = {"core": {r.choice(["max_line_length"]): "30"}} if r.random() < 0.5 else {"rules": {"capitalisation.keywords": {"capitalisation_policy": "upper"}}}
    return {"sql": sql, "config": cfg, "nested": nested, "tags": sorted(tags), "inline": bool(inline), "subdir": "models" if nested or r.random() < 0.3 else ""}


class Project:
    """Scratch project directory holding the scenario."""

    def __init__(self, scen: dict):
        from vfw.core import sf

        self.scen = scen
        self.root = tempfile.mkdtemp(prefix="vfw_cli_")
        sf.write_ini(self.root, scen["config"])
        self.rel = os.path.join(scen["subdir"], "f.sql") if scen["subdir"] else "f.sql"
        if scen["subdir"]:
            os.makedirs(os.path.join(self.root, scen["subdir"]), exist_ok=True)
            if scen["nested"]:
                sf.write_ini(os.path.join(self.root, scen["subdir"]), scen["nested"])
        self.path = os.path.join(self.root, self.rel)
        self.write()

    def write(self):
        with open(self.path, "w", encoding="utf-8", newline="") as f:
            f.write(self.scen["sql"])
        for rel, sql in (self.scen.get("extra_files") or {}).items():
            with open(os.path.join(self.root, rel), "w", encoding="utf-8", newline="") as f:
                f.write(sql)

    def read(self) -> str:
        with open(self.path, encoding="utf-8", newline="") as f:
            return f.read()

    def env(self):
        return pool.worker_env({"HOME": self.root, "XDG_CONFIG_HOME": os.path.join(self.root, ".xdg")})

    def cli(self, args, stdin=None, timeout=400):
        pr = subprocess.run([pool.PYTHON, "-m", "sqlfluff"] + args, cwd=self.root, input=stdin.encode("utf-8") if stdin is not None else None, capture_output=True, timeout=timeout, env=self.env())
        return pr.returncode, pr.stdout.decode("utf-8", "replace"), pr.stderr.decode("utf-8", "replace")

    def api(self, op: str, timeout=400, rel=None):
        """Run sqlfluff.lint / sqlfluff.fix with FluffConfig.from_path(file) in a fresh process."""
        pr = subprocess.run([pool.PYTHON, "-m", "vfw.props.cliscen", op, rel or self.rel], cwd=self.root, capture_output=True, timeout=timeout, env=self.env())
        out = pr.stdout.decode("utf-8", "replace")
        try:
            return json.loads(out.strip().splitlines()[-1])
        except Exception:
            return {"error": "unreadable", "stdout": out[-500:], "stderr": pr.stderr.decode("utf-8", "replace")[-800:]}

    def close(self):
        shutil.rmtree(self.root, ignore_errors=True)


def vset_from_json(out: str):
    """Violation set from `--format json` output: {(code, line, col, desc, warning)}."""
    recs = json.loads(out)
    s = set()
    for rec in recs:
        for v in rec.get("violations", []):
            s.add((v["code"], v["start_line_no"], v["start_line_pos"], v["description"], bool(v.get("warning"))))
    return s


def _api_main():
    import sqlfluff
    from sqlfluff.core import FluffConfig, Linter

    op, rel = sys.argv[1], sys.argv[2]
    with open(rel, encoding="utf-8", newline="") as f:
        sql = f.read()
    res = {}
    try:
        cfg = FluffConfig.from_path(rel)
        if op == "lint":
            vs = sqlfluff.lint(sql, config=cfg)
            res["violations"] = sorted([v["code"], v["start_line_no"], v["start_line_pos"], v["description"], bool(v.get("warning"))] for v in vs)
        elif op == "fix":
            res["fixed"] = sqlfluff.fix(sql, config=cfg)
        elif op in ("model", "model_format"):
            if op == "model_format":
                from vfw.props.fixcase import FORMAT_RULES

                cfg = FluffConfig.from_path(rel, overrides={"rules": FORMAT_RULES + ","})
            # observations for the exit-code model (C22): one fix-mode lint through the Linter
            from sqlfluff.core.errors import SQLLintError, SQLParseError, SQLTemplaterError

            lnt = Linter(config=cfg)
            linted = lnt.lint_string(sql, fname=rel, fix=True, config=cfg)
            allv = linted.get_violations(filter_ignore=False, filter_warning=False)
            shown = linted.get_violations(filter_warning=False)  # after ignore + noqa
            res["n_unfiltered_tmp_prs"] = sum(1 for v in allv if isinstance(v, (SQLParseError, SQLTemplaterError)))
            res["shown"] = [[v.rule_code(), bool(v.warning), bool(getattr(v, "fixable", False)), isinstance(v, (SQLParseError, SQLTemplaterError))] for v in shown]
            res["fix_even_unparsable"] = bool(cfg.get("fix_even_unparsable"))
            # ground truth "file has a templating / parsing error": a lint with every suppression switched off
            # (ignore=templating also changes how the jinja templater RENDERS undefined variables, so it is
            # kept when configured: the truth has to be about the rendering the configured run really does)
            keep = "templating" if "templating" in [x.strip() for x in str(cfg.get("ignore") or "").replace("[", "").replace("]", "").replace("'", "").split(",")] else ""
            tcfg = FluffConfig.from_path(rel, overrides={"ignore": keep, "warnings": "", "disable_noqa": True})
            tl = Linter(config=tcfg).lint_string(sql, fname=rel, config=tcfg)
            res["truth_tmp_prs"] = sum(1 for v in tl.get_violations(filter_ignore=False, filter_warning=False) if isinstance(v, (SQLParseError, SQLTemplaterError)))
    except BaseException as e:
        res["error"] = f"{type(e).__name__}: {str(e)[:300]}"
    print(json.dumps(res))


if __name__ == "__main__":
    _api_main()
