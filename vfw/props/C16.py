"""C16 — Fixes preserve query results (SQLite is the semantic reference)."""

import sqlite3

from vfw.core import sf
from vfw.gen import sqlite_gen
from vfw.gen.corpus import short_hash

PROPERTY = "C16"
LEVEL = "exploration"
RULE = (
    "case = generated executable query (SELECT/WHERE/JOIN/GROUP BY/CASE/COALESCE/CAST/subquery/CTE/set operations, sloppy layout and casing) over a fixed 3-table schema with "
    "seeded contents incl. NULLs; the query is executed in sqlite3 :memory:, fixed with dialect=sqlite and all rules except ST06 and CV05 (the two documented behaviour-changing rules), "
    "and executed again; oracle: fixed query runs and returns the same multiset of rows; cases SQLite rejects before fixing are not decided; distinct = query hash; "
    "non-trivial = executable and changed by the fix"
)
ASSUMPTIONS = ["row order is not compared (no top-level ORDER BY is generated)", "SQLite's evaluation is the semantic reference"]
TIMEOUT = {"quick": 400, "thorough": 900}
MIN_NONTRIVIAL = {"quick": 80, "thorough": 1000}
REQUIRED_COUNTERS = ["executed_before", "executed_after"]
N = 3000


def cases(tier, seed):
    import random

    ids = list(range(N))
    random.Random(f"c16:{seed}").shuffle(ids)
    if tier == "quick":
        ids = ids[:350]
    return [{"id": f"sq:{i}", "idx": i} for i in ids]


def _db(seed):
    con = sqlite3.connect(":memory:")
    con.executescript(sqlite_gen.SCHEMA)
    for stmt, args in sqlite_gen.data(seed):
        con.execute(stmt, args)
    return con


def _run(con, sql):
    cur = con.execute(sql.strip().rstrip(";"))
    return sorted(repr(tuple(row)) for row in cur.fetchall())


def run_case(case):
    g = sqlite_gen.gen(case["idx"])
    sql = g["sql"]
    con = _db(g["data_seed"])
    try:
        before = _run(con, sql)
    except Exception as e:
        return {"status": "skip", "counters": {"not_executable": 1}, "detail": repr(e)[:120]}
    lnt = sf.make_linter("sqlite", exclude="ST06,CV05")
    try:
        linted = lnt.lint_string(sql, fix=True)
        fixed, _ = linted.fix_string()
    except Exception as e:
        return {"status": "skip", "counters": {"lint_raised": 1}, "detail": repr(e)[:200]}
    counters = {"executed_before": 1}
    classes = set()
    if "group_by_ordinal" in g["features"]:
        classes.add("sqlite.group_by_ordinal")
    fails = []
    try:
        after = _run(con, fixed)
        counters["executed_after"] = 1
        if after != before:
            fails.append({"sig": "rows_differ", "detail": {"sql": sql, "fixed": fixed, "before": before[:5], "after": after[:5]}})
    except Exception as e:
        fails.append({"sig": "fixed_query_fails", "detail": {"sql": sql, "fixed": fixed, "error": repr(e)[:200]}})
    changed = fixed.strip() != sql.strip()
    return {
        "status": "fail" if fails else "pass",
        "failures": fails,
        "classes": sorted(classes),
        "counters": {**counters, "changed_by_fix": int(changed), "rules_fired": len({v.rule_code() for v in linted.get_violations()})},
        "key": short_hash(sql) if changed else None,
        "sample": {"sql": sql, "fixed": fixed, "rows": len(before)} if changed and case["idx"] % 50 == 0 else None,
    }
