"""C08 — Jinja rendering fidelity: the linted SQL is what Jinja renders."""

from vfw.core import sf
from vfw.gen import hostile
from vfw.gen.corpus import stratified_sample
from vfw.props import common

PROPERTY = "C08"
LEVEL = "exploration"
RULE = (
    "case = (source, context) with the jinja templater: generated hostile/lintable templates, marker-free dialect fixtures (fast path), the hostile string list "
    "(brace look-alikes, lone '{', '{ {', CRLF) ; reference = env.from_string(source, globals=ctx).render() using the templater's own construct_render_func "
    "environment and context, computed BEFORE sqlfluff runs (so its undefined-variable recorders are not yet installed); observed = templated_variants[0].templated_str "
    "from Linter.render_string; a case is decided only if the plain render succeeds; distinct = source hash; non-trivial = decided and source non-empty"
)
ASSUMPTIONS = ["newlines are normalised to LF before both renders, as Linter.render_string does", "the reference uses the same sandboxed environment/extensions the templater builds"]
TIMEOUT = {"quick": 300, "thorough": 600}
MIN_NONTRIVIAL = {"quick": 300, "thorough": 3000}
REQUIRED_COUNTERS = ["reference_renders", "compared"]
FOUR = ("ansi", "postgres", "tsql", "bigquery")


def universe():
    u = common.jj_cases(6000, "hostile", FOUR) + common.jj_cases(3000, "lintable", FOUR) + common.jj_cases(900, "guarded", ("ansi",))
    for c in common.fx_cases(6000):
        c = dict(c)
        c["id"] = "jfx:" + c["id"][3:]
        c["as_jinja"] = True
        c["stratum"] = "jfx:" + c["dialect"]
        u.append(c)
    for i in range(len(hostile.strings())):
        u.append({"id": f"jhs:{i}", "kind": "hs", "n": i, "dialect": "ansi", "as_jinja": True, "stratum": "jhs"})
    return u


def cases(tier, seed):
    return stratified_sample(universe(), lambda c: c["stratum"], 3000 if tier == "quick" else 0, seed)


def run_case(case):
    import re

    r = common.resolve(case)
    ctx = r["context"] if case["kind"] == "jj" else dict(common.jinja_gen.CONTEXT)
    lnt = sf.make_linter(r["dialect"], "jinja", context=ctx)
    src = re.sub(r"\r\n|\r", "\n", r["source"])
    counters = {}
    # reference first: plain render, same env + context, no tracing
    ref = None
    try:
        env, live_ctx, _ = lnt.templater.construct_render_func(fname="<string>", config=lnt.config)
        ref = env.from_string(src, globals=live_ctx).render()
        counters["reference_renders"] = 1
    except Exception as e:
        counters["reference_raised"] = 1
        ref_err = type(e).__name__
    try:
        rendered = lnt.render_string(r["source"], "<string>", lnt.config.copy(), "utf8")
    except Exception as e:
        return {"status": "skip", "counters": {**counters, "render_raised": 1}, "detail": repr(e)[:200]}
    classes = set()
    feats = set(r.get("features") or [])
    if "undefined_in_condition" in feats:
        classes.add("jinja.undefined_in_condition")
    if "undefined_with_default" in feats:
        classes.add("jinja.undefined_with_default")
    if "for_else" in feats:
        classes.add("jinja.for_else")
    if ref is None:
        return {"status": "skip", "counters": counters}
    fails = []
    if not rendered.templated_variants:
        # plain Jinja renders it but sqlfluff produced nothing to lint
        fails.append({"sig": "renders_in_jinja_but_no_variant", "detail": {"tmp": [str(v.desc())[:120] for v in rendered.templater_violations[:3]], "ref": ref[:200]}})
    else:
        got = rendered.templated_variants[0].templated_str
        counters["compared"] = 1
        if "{" not in src:
            counters["marker_free_compared"] = 1
        if got != ref:
            i = 0
            while i < min(len(got), len(ref)) and got[i] == ref[i]:
                i += 1
            fails.append({"sig": "render_mismatch", "detail": {"at": i, "sqlfluff": got[max(0, i - 40) : i + 60], "jinja": ref[max(0, i - 40) : i + 60], "source": src[:300]}})
    res = {
        "status": "fail" if fails else "pass",
        "failures": fails,
        "counters": counters,
        "classes": sorted(classes),
        "key": common.short_hash(src) if src else None,
    }
    if case["kind"] == "jj" and len(src) < 160:
        res["sample"] = {"source": src, "jinja_render": ref[:160], "features": sorted(feats)}
    return res
