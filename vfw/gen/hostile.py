"""W-HOSTILE: fixed list of short hostile strings (deterministic order)."""

from __future__ import annotations

import functools


@functools.lru_cache(maxsize=None)
def strings() -> tuple:
    out = []
    # every printable ASCII char alone and doubled, plus controls
    for c in range(0, 128):
        ch = chr(c)
        out.append(ch)
        if 32 <= c < 127:
            out.append(ch + ch)
    out += [
        "", " ", "\n", "\r\n", "\r", "\t\t", "\x00", "a\x00b", "\x0b\x0c", "﻿select 1", "select 1", " ", " ",
        "select 1 from t", "\U0001F600", "select '\U0001F600'", "​select", "‮select 1", "ｓｅｌｅｃｔ　１",
        "é", "select é from ñ", "İ", "ǅ", "ß",
        "'", "''", "'''", "'abc", "select 'abc", "select 'a''b", "\"", "\"abc", "select \"a", "`", "`abc", "select `a",
        "[", "[abc", "select [a", "$$", "$$abc", "select $$a", "$tag$abc", "q'[abc", "E'abc\\'", "N'abc", "b'01", "x'AF", "r'abc",
        "/*", "/* abc", "select /* abc", "/* /* */", "*/", "--", "-- abc", "select 1 -- abc", "#", "# abc", "//", "// abc",
        "{{", "}}", "{%", "%}", "{#", "#}", "${", "${abc", "@", "@@", "@a", ":a", "::", "?", "??", "\\", "\\\\", "\\'",
        "(", ")", "((", "))", ")(", "(()", "())", "[]", "][", "{}", "}{", "([)]", "select (", "select )", "select ((1)", "select (1))",
        ";", ";;", "; ;", "select 1;", "select 1;;", ";select 1", "select 1; select 2", "select 1;\nselect 2;\n",
        "select", "SELECT", "select ", "select\n", "select ,", "select , from", "select from", "from", "select * from", "select * from t where",
        "select 1 1", "select a b c", "select a,", "select a,, b", "select a from t,", "select a from t join", "select a from t join u on",
        "select case", "select case when", "select case when a then", "select case when a then b", "select case when a then b else", "select cast(", "select cast(a as",
        "with", "with a", "with a as", "with a as (", "with a as (select 1", "with a as (select 1)", "with a as (select 1) select",
        "insert", "insert into", "insert into t", "insert into t values", "insert into t values (", "update", "update t set", "delete", "delete from",
        "create", "create table", "create table t", "create table t (", "create table t (a", "create table t (a int,", "drop", "alter table t",
        "select 1 union", "select 1 union all", "select 1 union select", "select a from t group by", "select a from t order by", "select a from t limit",
        "select 1e", "select 1e+", "select 1.", "select .1", "select 1..2", "select 0x", "select 1a", "select a.", "select .a", "select a..b", "select a.b.c.d.e",
        "select - 1", "select --1", "select - -1", "select +-+-1", "select 1 - -1", "select 1--1", "select a<>b", "select a!=b", "select a!b", "select a<=>b", "select a||b", "select a|b", "select a&&b",
        "select ~~~4", "select a->b", "select a->>b", "select a#>b", "select a@>b", "select a::int::text", "select a:b:c", "select a[1]", "select a[1:2]", "select a[", "select {a: 1}",
        "select * from t as", "select t.* from t", "select t.*.a", "select count(*)", "select count(", "select count(distinct", "select f(,)", "select f(a,)", "select f((a)",
        "select 1 as", "select 1 as 'a'", "select 1 as \"a\"", "select 1 as `a`", "select 1 as [a]", "select 1 as select", "select select", "select from from from",
        "SeLeCt A fRoM b", "select\ta\tfrom\tb", "select\ra\rfrom\rb", "select\r\na\r\nfrom\r\nb", "select a from b\x00", "select a\x1afrom b",
        "  select 1", "\n\nselect 1", "select 1\n\n\n", "select 1   ", "   ", "\n\n\n", "\t\n \t\n",
        "select a, -- c\n b", "select a /* c */ , b", "select /* c */", "-- only comment", "/* only comment */", "-- c1\n-- c2\n", "select 1 -- noqa", "select 1 -- noqa: LT01", "select 1 --noqa:disable=all",
        "-- sqlfluff:dialect:ansi\nselect 1", "-- sqlfluff:rules:LT01\nselect 1", "-- sqlfluff:", "-- sqlfluff:bad", "-- sqlfluff:max_line_length:x\nselect 1",
        "a" * 300, "select " + "a" * 2000, "select " + ", ".join(["a"] * 300), "select " + "(" * 40 + "1" + ")" * 40, "select " + "(" * 40, ")" * 40,
        "select " + " + ".join(["1"] * 200), "select " + "case when a then " * 15 + "1" + " end" * 15, "select " + "-" * 50 + "1", "select " + "not " * 40 + "a",
        "select " + "'" * 101, "select " + "\"" * 101, "/*" * 50, "*/" * 50, "--" * 50, "select " + "a." * 100 + "b",
        "select * from " + " join ".join(["t"] * 50), "select 1 " + "union select 1 " * 40, ";" * 100, "select 1;" * 50,
    ]
    # dedupe preserving order
    seen = set()
    res = []
    for s in out:
        if s not in seen:
            seen.add(s)
            res.append(s)
    return tuple(res)
