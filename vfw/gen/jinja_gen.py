"""W-JINJA: deterministic Jinja template generator (pure function of index).

Two flavours:
  * ``hostile``  – free mix of literals / expressions / blocks, any nesting;
  * ``lintable`` – a SELECT skeleton whose rendering is (mostly) parsable SQL
    with fixable layout / capitalisation violations, and template constructs in
    the column list / where clause.

Each template carries feature flags computed from its *construction* (they are
decidable from the input alone) used for class-based known findings.
"""

from __future__ import annotations

from vfw.gen.corpus import rng

VERSION = 3
CONTEXT = {"v1": "tbl", "v2": 3, "flag_t": True, "flag_f": False, "lst": [1, 2, 3], "s_empty": "", "zero": 0, "lst2": ["alpha", "beta"], "none_v": None}

LITERALS = [
    "select ", "SELECT ", " from ", " FROM ", "a", "b", "col_a", "col_b, ", "1", "1 + 2", " , ",
    "\n", "\n    ", "  ", " ", ",", " where x = 1", " and y > 2", "t1", " as c", "(", ")", "'str'",
    " -- c\n", "/* b */", ";", "\n\n", "foo.bar", "*", " join t2 on t1.a = t2.a", " group by 1",
    "count(*)", " case when a then b end", "é", "\t", "x.y.z", "1e3", "a||b",
]
EXPRS = [
    ("v1", None), ("v2", None), ("v2 + 1", None), ("v1 | upper", None), ("lst[0]", None), ("''", None),
    ("s_empty", None), ("'a' ~ v1", None), ("lst | length", None), ("v1[:2]", None), ("flag_t", None),
    ("undef_x", "undefined_output"), ("undef_y.attr", "undefined_output"), ("v1 if flag_f else 'z'", None),
    ("undef_z | default('dflt')", "undefined_with_default"), ("lst | join(', ')", None),
]
CONDS = [
    ("flag_t", None), ("flag_f", None), ("not flag_t", None), ("v2 > 2", None), ("v2 > 5", None), ("true", None),
    ("false", None), ("lst", None), ("undef_c", "undefined_in_condition"), ("not undef_d", "undefined_in_condition"),
    ("v1 == 'tbl'", None), ("flag_t and flag_f", None), ("undef_e is defined", "undefined_in_condition"), ("s_empty", None),
]
ITERS = [
    ("lst", None), ("range(2)", None), ("[]", "empty_loop"), ("[1]", None), ("range(v2)", None), ("['x', 'y']", None),
    ("lst[:0]", "empty_loop"),
]


class _Gen:
    def __init__(self, r):
        self.r = r
        self.feats: set = set()
        self.n_set = 0
        self.macros: list = []
        self.loopvars: list = []

    def lo(self) -> str:
        x = self.r.random()
        if x < 0.12:
            self.feats.add("trim_markers")
            return "-"
        if x < 0.14:
            self.feats.add("plus_markers")
            return "+"
        return ""

    def rc(self) -> str:
        x = self.r.random()
        if x < 0.12:
            self.feats.add("trim_markers")
            return "-"
        return ""

    def tag(self, body: str) -> str:
        pad_l = self.r.choice([" ", " ", " ", "", "  "])
        pad_r = self.r.choice([" ", " ", " ", "", "  "])
        return "{%" + self.lo() + pad_l + body + pad_r + self.rc() + "%}"

    def expr(self) -> str:
        r = self.r
        choices = list(EXPRS)
        for lv in self.loopvars:
            choices += [(lv, None), (lv, None), (f"loop.index", None)]
        for i in range(self.n_set):
            choices.append((f"sv{i}", None))
        for m in self.macros:
            choices.append((f"{m}(1)", None))
            choices.append((f"{m}(v2)", None))
        e, feat = r.choice(choices)
        if feat:
            self.feats.add(feat)
        lo = "-" if r.random() < 0.1 else ""
        rc = "-" if r.random() < 0.1 else ""
        if lo or rc:
            self.feats.add("trim_markers")
        pad = r.choice([" ", " ", "", "  "])
        return "{{" + lo + pad + e + pad + rc + "}}"

    def literal(self) -> str:
        r = self.r
        return "".join(r.choice(LITERALS) for _ in range(r.randint(1, 2)))

    def body(self, depth: int, lits=None) -> str:
        r = self.r
        n = r.randint(1, 3 if depth < 1 else 2)
        out = []
        for _ in range(n):
            out.append(self.element(depth, lits))
        return "".join(out)

    def element(self, depth: int, lits=None) -> str:
        r = self.r
        x = r.random()
        lit = (lambda: r.choice(lits)) if lits else self.literal
        if x < 0.40 or depth >= 2:
            return lit()
        if x < 0.55:
            return self.expr()
        if x < 0.70:
            self.feats.add("conditional")
            c, feat = r.choice(CONDS)
            if feat:
                self.feats.add(feat)
            s = self.tag(f"if {c}") + self.body(depth + 1, lits)
            if r.random() < 0.3:
                c2, feat2 = r.choice(CONDS)
                if feat2:
                    self.feats.add(feat2)
                self.feats.add("elif")
                s += self.tag(f"elif {c2}") + self.body(depth + 1, lits)
            if r.random() < 0.5:
                s += self.tag("else") + self.body(depth + 1, lits)
            return s + self.tag("endif")
        if x < 0.82:
            self.feats.add("loop")
            it, feat = r.choice(ITERS)
            if feat:
                self.feats.add(feat)
            lv = f"i{len(self.loopvars)}"
            self.loopvars.append(lv)
            s = self.tag(f"for {lv} in {it}") + self.body(depth + 1, lits)
            if r.random() < 0.12:
                self.feats.add("for_else")
                s += self.tag("else") + self.body(depth + 1, lits)
            self.loopvars.pop()
            return s + self.tag("endfor")
        if x < 0.88:
            name = f"sv{self.n_set}"
            if r.random() < 0.7:
                self.feats.add("set_inline")
                e, feat = r.choice(EXPRS[:11])
                s = self.tag(f"set {name} = {e}")
            else:
                self.feats.add("set_block")
                s = self.tag(f"set {name}") + lit() + self.tag("endset")
            self.n_set += 1
            return s
        if x < 0.93 and depth == 0:
            self.feats.add("macro")
            name = f"m{len(self.macros)}"
            s = self.tag(f"macro {name}(a)") + lit() + "{{ a }}" + (lit() if r.random() < 0.5 else "") + self.tag("endmacro")
            self.macros.append(name)
            return s
        if x < 0.96:
            self.feats.add("comment")
            return "{#" + r.choice([" c ", "", " {{ x }} ", "-", " multi\nline "]) + "#}"
        if x < 0.98:
            self.feats.add("raw")
            return self.tag("raw") + r.choice(["{{ not }}", " {% x %} ", "plain", ""]) + self.tag("endraw")
        if self.macros and depth == 0:
            self.feats.add("call_block")
            return self.tag(f"call {self.macros[-1]}(2)") + lit() + self.tag("endcall")
        return lit()


LINT_COLS = ["col_a", "b", "c AS d", "t.e", "COUNT(*) as n", "1+2 AS s", "Foo", "bar  ", "x ,y", "NULL as z", "a.b  AS  q"]
LINT_WS = [" ", "  ", "\n", "\n    ", "\n  ", ""]


GUARDS = ["zero", "flag_f", "not flag_t", "s_empty", "none_v", "v2 > 5", "lst2 | length > 5"]
RAISERS = [
    ("{% for i in range(0, 3, zero) %}c{{ i }}, {% endfor %}", "ValueError"),
    ("{% for k, v in lst2 %}{{ k }} as {{ v }}, {% endfor %}", "ValueError"),
    ("{{ 1 // zero }}", "ZeroDivisionError"),
    ("{{ v2 % zero }}", "ZeroDivisionError"),
    ("{{ lst[7] }}", "Undefined"),
    ("{{ none_v.attr }}", "UndefinedError"),
    ("{{ lst2 | first | int('x') // zero }}", "ZeroDivisionError"),
    ("{{ 'abc' | int(none_v) + 1 }}", "TypeError"),
    ("{{ lst | batch(zero) | list }}", "ValueError?"),
    ("{{ '%d' | format(v1) }}", "TypeError"),
    ("{{ v1.zfill(none_v) }}", "TypeError"),
    ("{{ lst2 | join(', ') }}", "ok"),
    ("{{ range(zero - 3) | list | length }}", "ok"),
    ("{{ {'a': 1}['b'] }}", "Undefined"),
    ("{{ lst | sum(start=v1) }}", "TypeError"),
]


def gen_guarded(idx: int) -> dict:
    """Templates whose *unreached* branch raises when forced (plus reached variants)."""
    r = rng("jinja-guarded", 1, idx)
    feats = set()
    raiser, kind = RAISERS[idx % len(RAISERS)]
    reached = (idx // len(RAISERS)) % 6 == 5
    guard = r.choice(GUARDS)
    lead = r.choice(["select ", "SELECT\n    ", "select a, "])
    tail = r.choice(["1 as one from t\n", "b from {{ v1 }}\n", "c\nfrom t where x = {{ v2 }}\n"])
    if reached:
        feats.add("reached_raiser")
        src = lead + raiser + tail
    else:
        feats.add("guarded_raiser")
        shape = r.randrange(3)
        if shape == 0:
            src = lead + "{% if " + guard + " %}" + raiser + "{% endif %}" + tail
        elif shape == 1:
            src = lead + "{% if " + guard + " %}" + raiser + "{% else %}d, {% endif %}" + tail
        else:
            src = "{% if " + guard + " %}" + lead + raiser + tail + "{% else %}" + lead + tail + "{% endif %}"
    feats.add("raiser:" + kind)
    return {"source": src, "features": sorted(feats), "context": CONTEXT}


LOOPSEP = [
    "SELECT {% for c in lst %}{% if not loop.first %} + {% endif %}{{ c }}{% endfor %} AS s FROM t",
    "{% for c in lst2 %}{% if not loop.first %}UNION ALL{% endif %} SELECT '{{ c }}' AS x FROM t {% endfor %}",
    "SELECT a FROM t WHERE {% for c in lst %}{% if not loop.first %} AND {% endif %}x > {{ c }}{% endfor %}",
    "SELECT {% for c in lst %}{% if not loop.first %}, {% endif %}c{{ c }}{% endfor %} FROM t",
    "SELECT a FROM t ORDER BY {% for c in lst2 %}{% if not loop.first %}, {% endif %}{{ c }} DESC{% endfor %}",
    "SELECT COALESCE({% for c in lst2 %}{% if not loop.first %}, {% endif %}{{ c }}{% endfor %}) AS v FROM t",
    "{% for c in lst %}{% if loop.index > 1 %}UNION{% endif %}\nSELECT {{ c }} AS n{% endfor %}",
    "SELECT a FROM t WHERE a IN ({% for c in lst %}{% if not loop.first %},{% endif %}{{ c }}{% endfor %})",
    "SELECT {% for c in lst %}{{ ', ' if not loop.first else '' }}c{{ c }}{% endfor %} FROM t",
    "SELECT CASE {% for c in lst %}{% if not loop.first %} {% endif %}WHEN a = {{ c }} THEN {{ c }}{% endfor %} END AS x FROM t",
]


def gen_loopsep(idx: int) -> dict:
    """loops that emit their separator at the START of each iteration but the first: a node can begin in the middle of
    the loop body, so a later child lies EARLIER in the source than the node's first child."""
    r = rng("jinja-loopsep", 1, idx)
    src = LOOPSEP[idx % len(LOOPSEP)]
    if r.random() < 0.5:
        src = src.replace("{% if not loop.first %}", r.choice(["{%- if not loop.first %}", "{% if not loop.first -%}", "{%if not loop.first%}"]))
    if r.random() < 0.5:
        src = src.replace("SELECT", r.choice(["select", "SELECT  ", "SELECT\n   "]))
    src += r.choice(["\n", "", "\n\n", " \n"])
    return {"source": src, "features": ["loop", "loop_leading_separator", "conditional"], "context": CONTEXT}


def gen(idx: int, flavour: str = "hostile") -> dict:
    if flavour == "guarded":
        return gen_guarded(idx)
    if flavour == "loopsep":
        return gen_loopsep(idx)
    r = rng("jinja", VERSION, flavour, idx)
    g = _Gen(r)
    if flavour == "hostile":
        src = g.body(0)
        if r.random() < 0.7 and not src.endswith("\n"):
            src += "\n"
    else:
        kw = r.choice(["select", "SELECT", "Select"])
        fr = r.choice(["from", "FROM"])
        parts = [kw, r.choice([" ", "  ", "\n    "])]
        ncols = r.randint(1, 4)
        for ci in range(ncols):
            x = r.random()
            if x < 0.45:
                parts.append(r.choice(LINT_COLS))
            elif x < 0.6:
                parts.append(g.expr() + r.choice(["", "_x", " as e" + str(ci)]))
            elif x < 0.8:
                g.feats.add("loop")
                it, feat = r.choice(ITERS)
                if feat:
                    g.feats.add(feat)
                parts.append(g.tag(f"for i0 in {it}") + r.choice(["c{{ i0 }}", "{{ i0 }} as k{{ i0 }}", "col_a + {{ i0 }}  AS p{{ i0 }}"]) + r.choice([",", ", ", " ,", ",\n    "]) + g.tag("endfor") + r.choice(["1 as one", "last_col"]))
            else:
                g.feats.add("conditional")
                c, feat = r.choice(CONDS)
                if feat:
                    g.feats.add(feat)
                s = g.tag(f"if {c}") + r.choice(LINT_COLS)
                if r.random() < 0.6:
                    s += g.tag("else") + r.choice(LINT_COLS)
                parts.append(s + g.tag("endif"))
            if ci < ncols - 1:
                parts.append(r.choice([",", ", ", " ,", ",\n    ", "  ,  "]))
        parts += [r.choice(LINT_WS[:5]), fr, r.choice([" ", "  "]), r.choice(["t", "{{ v1 }}", "my_tbl AS t", "{{ v1 }}_suffix"])]
        if r.random() < 0.5:
            g.feats.add("conditional")
            c, feat = r.choice(CONDS)
            if feat:
                g.feats.add(feat)
            parts.append(r.choice(["\n", " "]) + g.tag(f"if {c}") + r.choice(["where a=1", "WHERE b >2", "where  c = {{ v2 }}"]) + (g.tag("else") + "where 1=1" if r.random() < 0.3 else "") + g.tag("endif"))
        if r.random() < 0.35:
            # template comments at line ends / between tokens, with stray whitespace
            g.feats.add("comment")
            cm = r.choice(["{# note #}", "{#- trimmed -#}", "{# a\nb #}", "{#x#}"])
            pos = r.choice(["eol_ws", "eol", "inline", "own_line"])
            if pos == "eol_ws":
                parts.append(" " + cm + r.choice(["   ", " ", "\t"]))
            elif pos == "eol":
                parts.append(" " + cm)
            elif pos == "inline":
                parts.insert(r.randint(2, max(2, len(parts) - 1)), " " + cm + " ")
            else:
                parts.append("\n" + cm + r.choice(["", "  "]))
        if r.random() < 0.2:
            parts.insert(0, g.tag("set sv0 = v2") + "\n")
            g.n_set = 1
        if r.random() < 0.15:
            parts.insert(0, "{# header #}\n")
        parts.append(r.choice(["\n", "", "\n\n", "  \n"]))
        src = "".join(parts)
    return {"source": src, "features": sorted(g.feats), "context": CONTEXT}


def config_context_overrides() -> dict:
    """FluffConfig ``configs`` fragment that provides CONTEXT to the jinja templater."""
    return {"templater": {"jinja": {"context": dict(CONTEXT)}}}
