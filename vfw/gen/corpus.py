"""Input corpora read from /repo at run time (fixtures never change under a
sqlfluff source mutation), plus deterministic mutation operators and sampling.

All functions are pure functions of their arguments: no wall-clock, pid or hash
order dependence.
"""

from __future__ import annotations

import functools
import hashlib
import os
import random
from typing import Callable, Iterable, Optional

REPO = os.environ.get("VFW_REPO", "/repo")
FIX_ROOT = os.path.join(REPO, "test", "fixtures")

DIALECTS = [
    "ansi", "athena", "bigquery", "clickhouse", "databricks", "db2", "doris",
    "duckdb", "exasol", "flink", "greenplum", "hive", "impala", "mariadb",
    "materialize", "mysql", "oracle", "postgres", "redshift", "snowflake", "soql",
    "sparksql", "sqlite", "starrocks", "teradata", "trino", "tsql", "vertica",
]


def rng(*parts) -> random.Random:
    h = hashlib.sha256("|".join(str(p) for p in parts).encode()).digest()
    return random.Random(int.from_bytes(h[:8], "big"))


@functools.lru_cache(maxsize=None)
def fixtures(max_bytes: int = 0) -> tuple:
    """Sorted tuple of (dialect, filename) for every dialect fixture .sql."""
    out = []
    root = os.path.join(FIX_ROOT, "dialects")
    for d in sorted(os.listdir(root)):
        p = os.path.join(root, d)
        if not os.path.isdir(p) or d not in DIALECTS:
            continue
        for f in sorted(os.listdir(p)):
            if f.endswith(".sql"):
                if max_bytes and os.path.getsize(os.path.join(p, f)) > max_bytes:
                    continue
                out.append((d, f))
    return tuple(out)


def fixture_text(dialect: str, fname: str) -> str:
    with open(os.path.join(FIX_ROOT, "dialects", dialect, fname), encoding="utf-8") as f:
        return f.read()


@functools.lru_cache(maxsize=None)
def rule_cases() -> tuple:
    """(rule, case name, sql, configs dict, kind) from the std rule yaml cases."""
    import yaml

    root = os.path.join(FIX_ROOT, "rules", "std_rule_cases")
    out = []
    for fn in sorted(os.listdir(root)):
        if not fn.endswith(".yml"):
            continue
        with open(os.path.join(root, fn), encoding="utf-8") as f:
            try:
                data = yaml.safe_load(f)
            except Exception:
                continue
        rule = data.get("rule")
        for name, body in data.items():
            if name == "rule" or not isinstance(body, dict):
                continue
            for kind in ("fail_str", "pass_str"):
                if isinstance(body.get(kind), str):
                    out.append((str(rule), f"{fn[:-4]}:{name}", body[kind], body.get("configs") or {}, kind))
    return tuple(out)


HOSTILE_TOKENS = [
    "(", ")", "'", '"', ";", ",", "--", "/*", "*/", "[", "]", "{", "}", "$$", "`",
    "\x00", "é", "\\", "{{", "}}", "{%", "%}", ":", "?", "@", "#", "\t", "\r", " ",
    "\U0001F600", "​", "::", "||", "<>", "=", ".", "*", "%", "&", "|", "^", "~", "!",
]
KEYWORDS = [
    "SELECT", "FROM", "WHERE", "GROUP BY", "ORDER BY", "JOIN", "ON", "AS", "AND", "OR",
    "NOT", "NULL", "CASE", "WHEN", "THEN", "ELSE", "END", "UNION", "ALL", "DISTINCT",
    "INSERT", "INTO", "VALUES", "UPDATE", "SET", "DELETE", "CREATE", "TABLE", "WITH",
    "HAVING", "LIMIT", "IN", "IS", "BETWEEN", "LIKE", "EXISTS", "OVER", "PARTITION BY",
]


def _span(r: random.Random, n: int, maxlen: int = 30):
    if n == 0:
        return 0, 0
    a = r.randrange(n)
    b = min(n, a + r.randint(1, maxlen))
    return a, b


def mutate(text: str, key: str, nops: Optional[int] = None) -> str:
    """Apply 1-3 deterministic mutation operators chosen by ``key``."""
    r = rng("mut", key)
    k = nops or r.randint(1, 3)
    for _ in range(k):
        op = r.randrange(10)
        n = len(text)
        if op == 0:  # delete span
            a, b = _span(r, n)
            text = text[:a] + text[b:]
        elif op == 1:  # duplicate span
            a, b = _span(r, n)
            text = text[:b] + text[a:b] + text[b:]
        elif op == 2:  # insert hostile token
            a = r.randint(0, n)
            text = text[:a] + r.choice(HOSTILE_TOKENS) + text[a:]
        elif op == 3:  # truncate
            if n:
                text = text[: r.randint(max(0, n - 200), n)]
        elif op == 4:  # swap two words
            words = text.split(" ")
            if len(words) > 2:
                i, j = r.randrange(len(words)), r.randrange(len(words))
                words[i], words[j] = words[j], words[i]
                text = " ".join(words)
        elif op == 5:  # insert keyword
            a = r.randint(0, n)
            text = text[:a] + " " + r.choice(KEYWORDS) + " " + text[a:]
        elif op == 6:  # join lines
            lines = text.split("\n")
            if len(lines) > 1:
                i = r.randrange(len(lines) - 1)
                lines[i : i + 2] = [lines[i] + lines[i + 1]]
                text = "\n".join(lines)
        elif op == 7:  # insert / remove whitespace
            a = r.randint(0, n)
            text = text[:a] + r.choice([" ", "  ", "\n", "\t", "   \n", "\n\n\n"]) + text[a:]
        elif op == 8:  # swapcase span
            a, b = _span(r, n)
            text = text[:a] + text[a:b].swapcase() + text[b:]
        elif op == 9:  # delete a single char
            if n:
                a = r.randrange(n)
                text = text[:a] + text[a + 1 :]
    return text


def stratified_sample(items: list, key: Callable, n: int, seed) -> list:
    """Seeded sample without replacement, round-robin across strata so that every
    stratum is present when n allows.  n<=0 or n>=len -> all (shuffled)."""
    r = random.Random(f"sample:{seed}")
    groups: dict = {}
    for it in items:
        groups.setdefault(key(it), []).append(it)
    names = sorted(groups)
    for g in names:
        r.shuffle(groups[g])
    r.shuffle(names)
    out = []
    idx = 0
    total = len(items)
    want = total if n <= 0 or n >= total else n
    while len(out) < want:
        progressed = False
        for g in names:
            lst = groups[g]
            if idx < len(lst):
                out.append(lst[idx])
                progressed = True
                if len(out) >= want:
                    break
        idx += 1
        if not progressed:
            break
    return out


def short_hash(s: str) -> str:
    return hashlib.sha1(s.encode("utf-8", "surrogatepass")).hexdigest()[:12]


def commentize(text: str, key: str) -> str:
    """Layout-hostile but (usually) meaning-preserving mutation: put inline / block comments and line
    breaks at token boundaries - before brackets, after commas, in place of single spaces."""
    r = rng("cmt", key)
    out = text
    for _ in range(r.randint(1, 4)):
        op = r.randrange(5)
        if op == 0:
            idxs = [i for i, ch in enumerate(out) if ch == "("]
            rep = r.choice([" -- c\n(", " -- note\n    (", "/* c */("])
        elif op == 1:
            idxs = [i for i, ch in enumerate(out) if ch == ","]
            rep = r.choice([", -- c\n", " -- c\n,", ",/* c */"])
        elif op == 2:
            idxs = [i for i, ch in enumerate(out) if ch == " "]
            rep = r.choice([" -- c\n", "\n-- c\n", " /* c */ ", "\n\n"])
        elif op == 3:
            idxs = [i for i, ch in enumerate(out) if ch == "["]
            rep = r.choice([" -- c\n[", "/* c */["])
        else:
            idxs = [i for i, ch in enumerate(out) if ch == "."]
            rep = r.choice([" -- c\n.", ". -- c\n"])
        if not idxs:
            continue
        i = r.choice(idxs)
        out = out[:i] + rep + out[i + 1 :]
    return out
