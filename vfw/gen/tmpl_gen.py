"""W-PYFMT / W-PLACEHOLDER generators (pure functions of the index)."""

from __future__ import annotations

from vfw.gen.corpus import rng

VERSION = 1

PY_CONTEXT = {
    "tbl": "my_table", "col": "col_a", "num": 7, "flt": 2.5, "cond": "a > 1", "empty": "",
    "sqlfluff": {"a.b": "dotted_ab", "schema.table": "sch.t1", "x.y.z": "deep"},
}
PY_LITS = ["select ", " from ", "a, b", " where ", "\n", "  ", "1", ",", " as c", "'s'", "(", ")", " -- c\n", "x = ", "é", "{{", "}}", "{{x}}", "%", ":", "\t"]
PY_FIELDS = [
    ("{tbl}", "plain"), ("{col}", "plain"), ("{num}", "plain"), ("{cond}", "plain"), ("{empty}", "plain"), ("{flt}", "plain"),
    ("{a.b}", "dotted"), ("{schema.table}", "dotted"), ("{x.y.z}", "dotted"),
    ("{num:>4}", "spec"), ("{num:03d}", "spec"), ("{flt:.1f}", "spec"), ("{tbl!r}", "conv"), ("{tbl!s}", "conv"),
    ("{a.b!s}", "dotted_conv"), ("{a.b:>12}", "dotted_spec"), ("{a.b: >12}", "dotted_spaced_spec"), ("{tbl: >12}", "spaced_spec"),
    ("{sqlfluff[a.b]}", "explicit_sqlfluff_index"), ("{missing}", "missing_key"), ("{no.such}", "missing_dotted"),
    ("{}", "positional"), ("{0}", "positional"), ("{tbl:{num}}", "nested_spec"),
]


def gen_pyfmt(idx: int, lintable: bool = False) -> dict:
    r = rng("pyfmt", VERSION, lintable, idx)
    feats = set()
    parts = []
    if lintable:
        fields = [f for f in PY_FIELDS if f[1] in ("plain", "dotted", "spec")]
        parts = [r.choice(["select", "SELECT"]), r.choice([" ", "  "])]
        for i in range(r.randint(1, 3)):
            if i:
                parts.append(r.choice([",", ", ", " ,"]))
            if r.random() < 0.5:
                f, k = r.choice(fields)
                feats.add(k)
                parts.append(f + r.choice(["", "_x", "  AS q"]))
            else:
                parts.append(r.choice(["a", "b AS c", "1+2"]))
        parts += [r.choice([" ", "\n"]), r.choice(["from", "FROM"]), " "]
        f, k = r.choice([x for x in fields if x[1] != "spec"])
        feats.add(k)
        parts.append(r.choice([f, "t", f + "_sfx"]))
        if r.random() < 0.4:
            parts.append(" where {cond}")
        parts.append(r.choice(["\n", ""]))
    else:
        for _ in range(r.randint(1, 7)):
            if r.random() < 0.55:
                lit = r.choice(PY_LITS)
                if "{{" in lit or "}}" in lit:
                    feats.add("escaped_braces")
                parts.append(lit)
            else:
                f, k = r.choice(PY_FIELDS)
                feats.add(k)
                parts.append(f)
        if r.random() < 0.5:
            parts.append("\n")
    return {"source": "".join(parts), "features": sorted(feats), "context": PY_CONTEXT}


# second python-format flavour (added after seed C07-b slipped through): conversion AND format spec on the same
# field, fill/align/sign/grouping/precision specs, index / attribute access.  Own rng namespace, so the case ids
# (and case-keyed findings) of the first flavour do not move.
PY_FIELDS2 = [
    "{tbl!r:>12}", "{num!s:>4}", "{tbl!s:<10}", "{flt!r:>8}", "{tbl!a}", "{tbl!r:^14}", "{num!r:03}", "{col!s:_<9}", "{tbl!s:.3}",
    "{tbl:*^12}", "{num:+d}", "{num:x}", "{flt:08.3f}", "{flt:e}", "{num:,}", "{tbl:.4}", "{num:>{num}}", "{lst[0]}", "{lst[1]!r:>6}", "{tbl}", "{col}",
]
PY_CONTEXT2 = dict(PY_CONTEXT, lst=["x0", "y1"])


def gen_pyfmt2(idx: int) -> dict:
    r = rng("pyfmt2", 1, idx)
    parts = []
    feats = {"py2"}
    for _ in range(r.randint(1, 6)):
        if r.random() < 0.5:
            parts.append(r.choice([l for l in PY_LITS if "{" not in l and "}" not in l]))
        else:
            f = r.choice(PY_FIELDS2)
            if "!" in f and ":" in f:
                feats.add("conv_and_spec")
            parts.append(f)
    if r.random() < 0.5:
        parts.append("\n")
    return {"source": "".join(parts), "features": sorted(feats), "context": PY_CONTEXT2}


PH_STYLES = {
    # style: (list of parameter spellings, list of look-alikes that must NOT match)
    "colon": ([":name", ":p1", ":user_id"], ["::int", "a:b", "\\:esc", "'x':y"]),
    "colon_optional_quotes": ([":name", ":'name'", ':"p1"'], ["::int"]),
    "colon_nospaces": ([":name", "tbl:p1"], ["::int"]),
    "numeric_colon": ([":1", ":2", ":10"], [":name", "::3", "a:4"]),
    "pyformat": (["%(name)s", "%(p1)s"], ["%(name)d", "%s", "a%(x)s"]),
    "dollar": (["$name", "${p1}", "$user_id"], ["a$b", "$$q$$"]),
    "dollar_surround": (["$name$", "$p-1$"], ["a$b$"]),
    "flyway_var": (["${flyway:database}", "${a:b_c}"], ["${plain}", "$x"]),
    "question_mark": (["?", "?"], ["a?"]),
    "numeric_dollar": (["$1", "${2}", "$10"], ["$name", "a$3"]),
    "percent": (["%s", "%s"], ["%d", "a%s", "%%"]),
    "ampersand": (["&name", "&{p1}", "&s"], ["&&x"]),
}
PH_VALUES = {"name": "'bob'", "p1": "42", "user_id": "7", "1": "'one'", "2": "22", "10": "tbl10", "flyway:database": "mydb", "s": "sval", "p-1": "pm1"}


def gen_placeholder(idx: int, lintable: bool = False) -> dict:
    r = rng("placeholder", VERSION, lintable, idx)
    style = sorted(PH_STYLES)[idx % len(PH_STYLES)]
    params, lookalikes = PH_STYLES[style]
    configured = {k: v for k, v in PH_VALUES.items() if r.random() < 0.6}
    feats = {f"style:{style}"}
    kw = r.choice(["select", "SELECT"])
    parts = [kw, r.choice([" ", "  "])]
    for i in range(r.randint(1, 3)):
        if i:
            parts.append(r.choice([",", ", ", " ,"]))
        x = r.random()
        if x < 0.5:
            parts.append(r.choice(params) + r.choice(["", " as c%d" % i]))
        elif x < 0.7 and not lintable:
            feats.add("lookalike")
            parts.append("x" + r.choice(lookalikes) if False else r.choice(lookalikes))
        else:
            parts.append(r.choice(["a", "b  AS c", "1+2", "'lit'"]))
    parts += [r.choice([" ", "\n"]), r.choice(["from", "FROM"]), " ", r.choice(["t", "my_tbl"])]
    if r.random() < 0.7:
        parts += [r.choice([" ", "\n"]), "where x = ", r.choice(params)]
        if r.random() < 0.5:
            parts += [" and y=", r.choice(params)]
    if not lintable and r.random() < 0.3:
        feats.add("lookalike")
        parts += [" and z = ", r.choice(lookalikes)]
    parts.append(r.choice(["\n", ""]))
    return {"source": "".join(parts), "features": sorted(feats), "style": style, "values": configured}
