"""W-SQLITE: executable query generator over a fixed schema (pure function of index)."""

from __future__ import annotations

from vfw.gen.corpus import rng

VERSION = 3

SCHEMA = """
CREATE TABLE t1 (a INTEGER, b TEXT, c REAL);
CREATE TABLE t2 (a INTEGER, d TEXT);
CREATE TABLE t3 (x INTEGER, y INTEGER);
"""


def data(seed: int) -> list:
    r = rng("sqlite-data", VERSION, seed)
    stmts = []
    words = ["foo", "bar", "Baz", "", "qux", "foo"]
    for _ in range(r.randint(3, 7)):
        a = r.choice([1, 2, 3, 4, None])
        b = r.choice(words + [None])
        c = r.choice([0.5, 1.5, 2.0, None, -1.0])
        stmts.append(("INSERT INTO t1 VALUES (?,?,?)", (a, b, c)))
    for _ in range(r.randint(2, 6)):
        stmts.append(("INSERT INTO t2 VALUES (?,?)", (r.choice([1, 2, 3, 5, None]), r.choice(words + [None]))))
    for _ in range(r.randint(2, 6)):
        stmts.append(("INSERT INTO t3 VALUES (?,?)", (r.choice([1, 2, 3, None]), r.choice([10, 20, 30, None]))))
    return stmts


class _Q:
    def __init__(self, r):
        self.r = r
        self.feats = set()

    def kw(self, s: str) -> str:
        m = self.r.random()
        return s.upper() if m < 0.4 else (s.lower() if m < 0.8 else s.capitalize())

    def ws(self) -> str:
        return self.r.choice([" ", " ", " ", "  ", "\n", "\n    ", "\n  "])

    def num_expr(self, cols) -> str:
        r = self.r
        x = r.random()
        c = r.choice(cols)
        if x < 0.3:
            return c
        if x < 0.45:
            return f"{c}{r.choice(['+', ' + ', '-', ' * '])}{r.randint(1, 3)}"
        if x < 0.55:
            self.feats.add("coalesce")
            return f"{self.kw(r.choice(['coalesce', 'ifnull']))}({c},{r.choice(['', ' '])}0)"
        if x < 0.65:
            self.feats.add("case")
            return f"{self.kw('case')} {self.kw('when')} {c} {r.choice(['>', '>=', '=', '<>', '!='])} {r.randint(1, 3)} {self.kw('then')} 1 {self.kw('else')} 0 {self.kw('end')}"
        if x < 0.69:
            self.feats.add("case")
            return f"{self.kw('case')} {self.kw('when')} {c} {self.kw('is')} {self.kw('null')} {self.kw('then')} 0 {self.kw('else')} {c} {self.kw('end')}"
        if x < 0.72:
            self.feats.add("case_multi")
            t, f_ = r.choice([("TRUE", "FALSE"), ("true", "false"), ("1", "0"), ("FALSE", "TRUE"), ("'y'", "'n'")])
            c2 = r.choice(cols)
            els = r.choice([f" {self.kw('else')} {f_}", f" {self.kw('else')} {f_}", "", f" {self.kw('else')} {self.kw('null')}"])
            return (f"{self.kw('case')} {self.kw('when')} {c} > {r.randint(1, 3)} {self.kw('then')} {t} {self.kw('when')} {c2} < {r.randint(1, 3)} {self.kw('then')} "
                    f"{r.choice([t, t, f_])}{els} {self.kw('end')}")
        if x < 0.8:
            self.feats.add("cast")
            return f"{self.kw('cast')}({c} {self.kw('as')} {self.kw(r.choice(['integer', 'text', 'real']))})"
        if x < 0.86:
            return f"({c})"
        if x < 0.92:
            return f"-{c}"
        return f"{self.kw('abs')}({c})"

    def pred(self, cols) -> str:
        r = self.r
        c = r.choice(cols)
        x = r.random()
        if x < 0.35:
            return f"{c} {r.choice(['>', '>=', '=', '<>', '!=', '<'])} {r.randint(1, 3)}"
        if x < 0.5:
            return f"{c} {self.kw('is')} {self.kw(r.choice(['null', 'not null']))}"
        if x < 0.62:
            return f"{c} {self.kw('in')} ({r.randint(1, 2)},{r.choice(['', ' '])}{r.randint(3, 4)})"
        if x < 0.72:
            return f"{c} {self.kw('between')} 1 {self.kw('and')} 3"
        if x < 0.82:
            return f"({self.pred(cols)} {self.kw(r.choice(['and', 'or']))} {self.pred(cols)})"
        if x < 0.86:
            return f"{self.kw('not')} {c} = 2"
        if x < 0.9:
            self.feats.add("case_multi")
            t, f_ = r.choice([("TRUE", "FALSE"), ("FALSE", "TRUE"), ("1", "0")])
            return (f"{self.kw('case')} {self.kw('when')} {c} = {r.randint(1, 3)} {self.kw('then')} {t} {self.kw('when')} {c} >= {r.randint(2, 4)} {self.kw('then')} {r.choice([t, f_])} "
                    f"{self.kw('else')} {f_} {self.kw('end')}")
        self.feats.add("subquery")
        return f"{c} {self.kw('in')} ({self.kw('select')} x {self.kw('from')} t3)"

    def select_core(self, depth=0) -> str:
        r = self.r
        shape = r.random()
        if shape < 0.4:
            # single table
            alias = r.choice(["", "", " t", " AS t", " as tt"])
            tname = "t1"
            q = alias.split()[-1] if alias else ""
            cols = [f"{q}.{c}" if q and r.random() < 0.5 else c for c in ("a", "c")]
            tcols = [f"{q}.b" if q and r.random() < 0.5 else "b"]
            frm = f"{tname}{alias}"
            allc = cols
        elif shape < 0.75:
            self.feats.add("join")
            jt = r.choice(["join", "inner join", "left join", "left outer join"])
            a1, a2 = r.choice([("t1", "t2"), ("x", "y"), ("t1", "u")])
            as1 = "" if a1 == "t1" else r.choice([f" {a1}", f" AS {a1}"])
            as2 = "" if a2 == "t2" else r.choice([f" {a2}", f" as {a2}"])
            on = r.choice([f"{a1}.a = {a2}.a", f"{a2}.a = {a1}.a", f"{a1}.a={a2}.a", f"{a2}.a = {a1}.a + 1", f"{a2}.a <= {a1}.a - 1", f"{a2}.a > {a1}.a * 2",
                           f"{a2}.a = {a1}.a {self.kw('and')} {a2}.a < {a1}.a + 2", f"{a1}.a + 1 = {a2}.a", f"{a2}.a <> {a1}.a - 1"])
            frm = f"t1{as1}{self.ws()}{self.kw(jt)} t2{as2} {self.kw('on')} {on}"
            cols = [f"{a1}.a", f"{a1}.c", f"{a2}.a"]
            tcols = [f"{a1}.b", f"{a2}.d"]
            allc = cols
        else:
            self.feats.add("from_subquery")
            inner = f"{self.kw('select')} a, c, b {self.kw('from')} t1 {self.kw('where')} a {self.kw('is not null')}"
            al = r.choice(["s", "sub"])
            frm = f"({inner}){r.choice([' ', ' AS ', ' as '])}{al}"
            cols = [f"{al}.a", "c"]
            tcols = ["b"]
            allc = cols
        grouped = r.random() < 0.3
        items = []
        if grouped:
            self.feats.add("group_by")
            g = r.choice(cols + tcols)
            style = r.choice(["name", "ordinal"])
            items.append(g + r.choice(["", " AS g", " g"]))
            agg = r.choice(["count(*)", "count(1)", "COUNT(0)", f"sum({r.choice(cols)})", f"max({r.choice(cols)})", f"count(distinct {r.choice(cols)})", f"min({r.choice(tcols)})"])
            items.append(self.kw(agg.split("(")[0]) + "(" + agg.split("(", 1)[1] + r.choice(["", " AS n", " as cnt", " n"]))
            if style == "ordinal":
                self.feats.add("group_by_ordinal")
            gb = f"{self.ws()}{self.kw('group by')} {'1' if style == 'ordinal' else g}"
        else:
            n = r.randint(1, 4)
            for i in range(n):
                x = r.random()
                if x < 0.6:
                    e = self.num_expr(cols)
                elif x < 0.8:
                    e = r.choice(tcols)
                elif x < 0.9:
                    e = f"{r.choice(tcols)} || 'x'"
                else:
                    e = r.choice(["1", "'lit'", "NULL", "null", "1.5"])
                al = r.choice(["", "", f" AS c{i}", f" as c{i}", f" c{i}", f' AS "C{i}"'])
                items.append(e + al)
            gb = ""
        if r.random() < 0.15 and not grouped:
            self.feats.add("distinct")
            dist = self.kw("distinct") + " "
        else:
            dist = ""
        sep = r.choice([", ", ",", " ,", ",\n    ", "\n    , "])
        where = ""
        if r.random() < 0.6:
            where = f"{self.ws()}{self.kw('where')} {self.pred(allc)}"
            if r.random() < 0.3:
                where += f" {self.kw('and')} {self.pred(allc)}"
        having = ""
        if grouped and r.random() < 0.3:
            having = f"{self.ws()}{self.kw('having')} {self.kw('count')}(*) > 0"
        return f"{self.kw('select')} {dist}{sep.join(items)}{self.ws()}{self.kw('from')} {frm}{where}{gb}{having}"

    def query(self) -> str:
        r = self.r
        x = r.random()
        if x < 0.6:
            q = self.select_core()
        elif x < 0.8:
            self.feats.add("set_op")
            op = r.choice(["union", "union all", "UNION ALL", "except", "intersect", "UNION"])
            q = (
                f"{self.kw('select')} a{r.choice([', ', ','])}b {self.kw('from')} t1 {self.kw('where')} {self.pred(['a'])}{self.ws()}{op}{self.ws()}"
                f"{self.kw('select')} a, d {self.kw('from')} t2"
            )
        else:
            self.feats.add("cte")
            name = r.choice(["cte", "base", "x1"])
            inner = self.select_core()
            q = f"{self.kw('with')} {name} {self.kw('as')} ({inner}){self.ws()}{self.kw('select')} {r.choice(['*', 'count(*)', 'COUNT(*) AS n'])} {self.kw('from')} {name}"
        return q + r.choice(["", ";", "\n", ";\n", " ;\n"])


def gen(idx: int) -> dict:
    r = rng("sqlite-q", VERSION, idx)
    g = _Q(r)
    q = g.query()
    return {"sql": q, "features": sorted(g.feats), "data_seed": idx % 7}
