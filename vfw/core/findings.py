"""known_findings.json: committed, never written at run time.

An entry suppresses a failure only when the property matches, the failure
signature is one of the entry's signatures, AND either the case id is listed in
``cases`` or the entry's ``class`` is among the input-decidable classes the
property module computed for that case.  ``fixed`` entries suppress nothing.
"""

from __future__ import annotations

import json
import os
from typing import Optional

ROOT = os.path.dirname(os.path.dirname(os.path.dirname(os.path.abspath(__file__))))
PATH = os.path.join(ROOT, "known_findings.json")


class Findings:
    def __init__(self, entries: list):
        self.entries = entries
        self._by_id = {e["id"]: e for e in entries}

    @classmethod
    def load(cls, prop: str) -> "Findings":
        try:
            with open(PATH) as f:
                data = json.load(f)
        except FileNotFoundError:
            data = {"findings": []}
        return cls([e for e in data.get("findings", []) if e.get("property") == prop])

    def match(self, case: dict, failure: dict, classes: list) -> Optional[str]:
        sig = failure.get("sig")
        cid = case.get("id")
        for e in self.entries:
            sigs = e.get("signature")
            if isinstance(sigs, str):
                sigs = [sigs]
            if sig not in (sigs or []):
                continue
            if "cases" in e and cid in e["cases"]:
                return e["id"]
            if "class" in e and e["class"] in (classes or []):
                return e["id"]
        return None

    def what(self, kid: str) -> str:
        return self._by_id.get(kid, {}).get("what", "")
