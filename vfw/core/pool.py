"""Own worker pool with a per-case watchdog.

multiprocessing.Pool hangs forever when a child dies, and some inputs make the
parser very slow, so we keep N long-lived worker *subprocesses* on pipes, feed
them JSON case descriptors and kill + restart a worker whose case exceeds its
wall budget.  A timed-out / crashed-worker case is reported with
status="timeout"/"crash" (inconclusive), never as a violation.
"""

from __future__ import annotations

import json
import os
import select
import subprocess
import sys
import threading
import time
from typing import Any, Callable, Iterable, Optional

ROOT = os.path.dirname(os.path.dirname(os.path.dirname(os.path.abspath(__file__))))
PYTHON = os.environ.get("VFW_PYTHON", "/venv/bin/python")


def worker_env(extra: Optional[dict] = None) -> dict:
    env = dict(os.environ)
    env["PYTHONHASHSEED"] = env.get("VFW_HASHSEED", "0")
    env["SQLFLUFF_VERIF"] = "1"
    pp = [ROOT]
    if env.get("VFW_SRC"):  # development aid: run the checks against a scratch worktree's sources
        pp.insert(0, env["VFW_SRC"])
    deps = os.path.join(ROOT, ".deps")
    if os.path.isdir(deps):
        pp.append(deps)
    if env.get("PYTHONPATH"):
        pp.append(env["PYTHONPATH"])
    env["PYTHONPATH"] = os.pathsep.join(pp)
    env["PYTHONDONTWRITEBYTECODE"] = "1"
    env.setdefault("COLUMNS", "200")
    if extra:
        env.update(extra)
    return env


class _Worker:
    def __init__(self, module: str, env: dict):
        self.module = module
        self.env = env
        self.proc: Optional[subprocess.Popen] = None
        self.served = 0
        self.start()

    def start(self) -> None:
        self.proc = subprocess.Popen(
            [PYTHON, "-m", "vfw.core.worker", self.module],
            stdin=subprocess.PIPE,
            stdout=subprocess.PIPE,
            stderr=subprocess.DEVNULL,
            env=self.env,
            cwd=ROOT,
        )
        self.served = 0

    def kill(self) -> None:
        if self.proc is not None:
            try:
                self.proc.kill()
                self.proc.wait(timeout=10)
            except Exception:
                pass
            for f in (self.proc.stdin, self.proc.stdout):
                try:
                    if f:
                        f.close()
                except Exception:
                    pass
        self.proc = None

    def run(self, case: dict, timeout: float) -> dict:
        if self.proc is None or self.proc.poll() is not None:
            self.kill()
            self.start()
        assert self.proc and self.proc.stdin and self.proc.stdout
        line = (json.dumps(case) + "\n").encode()
        try:
            self.proc.stdin.write(line)
            self.proc.stdin.flush()
        except Exception:
            self.kill()
            return {"status": "crash", "detail": "worker pipe closed before send"}
        fd = self.proc.stdout.fileno()
        deadline = time.monotonic() + timeout
        buf = b""
        while True:
            left = deadline - time.monotonic()
            if left <= 0:
                self.kill()
                return {"status": "timeout", "detail": f"exceeded {timeout}s"}
            r, _, _ = select.select([fd], [], [], min(left, 1.0))
            if not r:
                if self.proc.poll() is not None:
                    rc = self.proc.returncode
                    self.kill()
                    return {"status": "crash", "detail": f"worker exited rc={rc}"}
                continue
            chunk = os.read(fd, 1 << 20)
            if not chunk:
                rc = self.proc.poll()
                self.kill()
                return {"status": "crash", "detail": f"worker EOF rc={rc}"}
            buf += chunk
            if buf.endswith(b"\n"):
                break
        self.served += 1
        try:
            return json.loads(buf.decode())
        except Exception as e:  # pragma: no cover
            self.kill()
            return {"status": "crash", "detail": f"bad worker reply: {e}"}


def run_cases(
    module: str,
    cases: Iterable[dict],
    timeout: float,
    jobs: int = 0,
    recycle: int = 300,
    env_extra: Optional[dict] = None,
    on_result: Optional[Callable[[dict, dict], None]] = None,
    wall_budget: Optional[float] = None,
) -> list[tuple[dict, dict]]:
    """Run every case through ``module.run_case`` in worker subprocesses."""
    cases = list(cases)
    jobs = jobs or int(os.environ.get("VFW_JOBS", "0")) or min(16, os.cpu_count() or 4)
    jobs = max(1, min(jobs, len(cases) or 1))
    env = worker_env(env_extra)
    lock = threading.Lock()
    it = iter(enumerate(cases))
    results: list[Any] = [None] * len(cases)
    t_start = time.monotonic()

    def loop() -> None:
        w = _Worker(module, env)
        try:
            while True:
                with lock:
                    try:
                        i, case = next(it)
                    except StopIteration:
                        return
                if wall_budget and time.monotonic() - t_start > wall_budget:
                    res = {"status": "notrun", "detail": "wall budget exhausted"}
                else:
                    if w.served >= recycle:
                        w.kill()
                        w.start()
                    res = w.run(case, timeout)
                results[i] = (case, res)
                if on_result:
                    with lock:
                        on_result(case, res)
        finally:
            w.kill()

    threads = [threading.Thread(target=loop, daemon=True) for _ in range(jobs)]
    for t in threads:
        t.start()
    for t in threads:
        t.join()
    return results


if __name__ == "__main__":  # tiny self-test
    print(run_cases("vfw.core.selftest", [{"id": str(i), "n": i} for i in range(8)], 5))
    sys.exit(0)
