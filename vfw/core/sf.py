"""Helpers to build sqlfluff configs / linters inside worker processes."""

from __future__ import annotations

import copy
import functools
import json
from typing import Any, Optional


def make_config(dialect: str, templater: str = "raw", rules: Optional[str] = None, exclude: Optional[str] = None,
                core: Optional[dict] = None, sections: Optional[dict] = None, context: Optional[dict] = None):
    from sqlfluff.core import FluffConfig

    cfg: dict = {"core": {"dialect": dialect, "templater": templater}}
    if rules is not None:
        cfg["core"]["rules"] = rules
    if exclude is not None:
        cfg["core"]["exclude_rules"] = exclude
    if core:
        cfg["core"].update(core)
    for k, v in (sections or {}).items():
        if k == "core":
            cfg["core"].update(v)
        else:
            cfg[k] = copy.deepcopy(v)
    if context is not None:
        if templater == "placeholder":
            cfg.setdefault("templater", {})["placeholder"] = dict(context)
        else:
            cfg.setdefault("templater", {}).setdefault(templater, {})["context"] = copy.deepcopy(context)
    return FluffConfig(configs=cfg)


_LINTERS: dict = {}


def make_linter(dialect: str, templater: str = "raw", rules: Optional[str] = None, exclude: Optional[str] = None,
                core: Optional[dict] = None, sections: Optional[dict] = None, context: Optional[dict] = None, cache: bool = True):
    from sqlfluff.core import Linter

    key = json.dumps([dialect, templater, rules, exclude, core, sections, context], sort_keys=True, default=repr)
    if cache and key in _LINTERS:
        return _LINTERS[key]
    lnt = Linter(config=make_config(dialect, templater, rules, exclude, core, sections, context))
    if cache:
        if len(_LINTERS) > 64:
            _LINTERS.clear()
        _LINTERS[key] = lnt
    return lnt


def viol_tuple(v) -> tuple:
    return (v.rule_code(), v.line_no, v.line_pos, v.desc())


def write_ini(dirpath: str, cfg: dict, name: str = ".sqlfluff") -> str:
    """Write a nested config dict as a .sqlfluff ini file (sections joined by ':')."""
    import os

    lines = []

    def emit(prefix, d):
        scalars = {k: v for k, v in d.items() if not isinstance(v, dict)}
        if scalars or prefix == "sqlfluff":
            lines.append(f"[{prefix}]")
            for k, v in scalars.items():
                lines.append(f"{k} = {v}")
            lines.append("")
        for k, v in d.items():
            if isinstance(v, dict):
                emit(f"{prefix}:{k}", v)

    core = dict(cfg.get("core") or {})
    emit("sqlfluff", core)
    for k, v in cfg.items():
        if k != "core" and isinstance(v, dict):
            emit(f"sqlfluff:{k}", v)
    path = os.path.join(dirpath, name)
    with open(path, "w", encoding="utf-8") as f:
        f.write("\n".join(lines) + "\n")
    return path


def config_dict(dialect, templater="raw", rules=None, exclude=None, core=None, sections=None, context=None) -> dict:
    import copy

    cfg: dict = {"core": {"dialect": dialect, "templater": templater}}
    if rules is not None:
        cfg["core"]["rules"] = rules
    if exclude is not None:
        cfg["core"]["exclude_rules"] = exclude
    if core:
        cfg["core"].update(core)
    for k, v in (sections or {}).items():
        if k == "core":
            cfg["core"].update(v)
        else:
            cfg[k] = copy.deepcopy(v)
    if context is not None:
        if templater == "placeholder":
            cfg.setdefault("templater", {})["placeholder"] = dict(context)
        else:
            cfg.setdefault("templater", {}).setdefault(templater, {})["context"] = copy.deepcopy(context)
    return cfg
