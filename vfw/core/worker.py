"""Worker process: reads JSON cases on stdin, replies JSON results on the saved
stdout fd.  Everything the code under test prints goes to stderr instead."""

from __future__ import annotations

import importlib
import json
import os
import subprocess
import sys
import traceback


def main() -> None:
    modname = sys.argv[1]
    out_fd = os.dup(1)
    os.dup2(2, 1)  # stray prints from code under test must not corrupt protocol
    sys.stdout = sys.stderr
    out = os.fdopen(out_fd, "wb", buffering=0)
    try:
        mod = importlib.import_module(modname)
        init_err = None
    except BaseException:  # harness import failure -> every case is a harness_error
        mod = None
        init_err = traceback.format_exc()
    for line in sys.stdin.buffer:
        try:
            case = json.loads(line)
        except Exception:
            break
        if mod is None:
            res = {"status": "harness_error", "detail": init_err}
        else:
            try:
                res = mod.run_case(case)
            except subprocess.TimeoutExpired as e:
                # a CLI / driver subprocess of the case hit its wall-clock watchdog: inconclusive, not a harness bug
                res = {"status": "timeout", "detail": f"subprocess watchdog: {str(e)[:200]}"}
            except BaseException:
                res = {"status": "harness_error", "detail": traceback.format_exc()[-4000:]}
        try:
            data = json.dumps(res, default=repr)
        except Exception:
            data = json.dumps({"status": "harness_error", "detail": "unserialisable result"})
        out.write(data.encode() + b"\n")


if __name__ == "__main__":
    main()
