"""Generic runner: universe -> pool -> triage against known findings -> evidence."""

from __future__ import annotations

import argparse
import collections
import hashlib
import importlib
import json
import os
import sys
import time
from typing import Any

from vfw.core import pool
from vfw.core.findings import Findings

ROOT = pool.ROOT
EVIDENCE_DIR = os.path.join(ROOT, "evidence")
REPLAY_DIR = os.path.join(ROOT, "replays")


def _trim(obj: Any, limit: int = 600) -> Any:
    if isinstance(obj, str):
        return obj if len(obj) <= limit else obj[:limit] + f"...(+{len(obj) - limit})"
    if isinstance(obj, dict):
        return {k: _trim(v, limit) for k, v in list(obj.items())[:40]}
    if isinstance(obj, (list, tuple)):
        return [_trim(v, limit) for v in list(obj)[:20]]
    return obj


def write_replay(prop: str, case: dict, failure: dict, seed: int, tier: str) -> str:
    d = os.path.join(REPLAY_DIR, prop)
    os.makedirs(d, exist_ok=True)
    h = hashlib.sha1((case.get("id", "") + "|" + failure.get("sig", "")).encode()).hexdigest()[:12]
    path = os.path.join(d, f"{h}.json")
    with open(path, "w") as f:
        json.dump(
            {"property": prop, "seed": seed, "tier": tier, "case": case, "failure": failure},
            f,
            indent=1,
            default=repr,
        )
    return os.path.relpath(path, ROOT)


def replay(prop: str, path: str) -> int:
    mod = importlib.import_module(f"vfw.props.{prop}")
    with open(path) as f:
        rec = json.load(f)
    res = pool.run_cases(f"vfw.props.{prop}", [rec["case"]], timeout=600, jobs=1)[0][1]
    print(json.dumps(_trim(res, 4000), indent=1, default=repr))
    fails = res.get("failures") or []
    want = rec.get("failure", {}).get("sig")
    if any(f.get("sig") == want for f in fails):
        print(f"REPRODUCED property={prop} sig={want}")
        return 1
    print(f"NOT-REPRODUCED property={prop} sig={want} status={res.get('status')}")
    return 0


def main(argv=None) -> int:
    ap = argparse.ArgumentParser()
    ap.add_argument("prop")
    ap.add_argument("--tier", default=os.environ.get("VERIF_TIER", "quick"))
    ap.add_argument("--seed", type=int, default=None)
    ap.add_argument("--replay", default=None)
    ap.add_argument("--limit", type=int, default=0, help="debug: cap number of cases")
    ap.add_argument("--dump-failures", default=None, help="debug: write all failures as jsonl")
    args = ap.parse_args(argv)
    prop = args.prop
    if args.replay:
        return replay(prop, args.replay)
    tier = args.tier if args.tier in ("quick", "thorough") else "quick"
    seed = args.seed if args.seed is not None else int(os.environ.get("VERIF_SEED", "0") or 0)

    t0 = time.monotonic()
    mod = importlib.import_module(f"vfw.props.{prop}")
    findings = Findings.load(prop)
    cases = mod.cases(tier, seed)
    if args.limit:
        cases = cases[: args.limit]
    timeout = getattr(mod, "TIMEOUT", {}).get(tier, 120 if tier == "quick" else 300)
    wall_budget = getattr(mod, "WALL_BUDGET", {}).get(tier)
    env_extra = getattr(mod, "ENV", None)
    jobs = getattr(mod, "JOBS", 0)

    results = pool.run_cases(
        f"vfw.props.{prop}",
        cases,
        timeout=timeout,
        jobs=jobs,
        env_extra=env_extra,
        wall_budget=wall_budget,
        recycle=getattr(mod, "RECYCLE", 300),
    )

    counters: collections.Counter = collections.Counter()
    status_count: collections.Counter = collections.Counter()
    strata: collections.Counter = collections.Counter()
    keys: set = set()
    samples: list = []
    violations: list = []
    known_fired: collections.Counter = collections.Counter()
    inconclusive_cases: list = []
    dump = open(args.dump_failures, "w") if args.dump_failures else None
    for case, res in results:
        if res is None:
            res = {"status": "notrun"}
        st = res.get("status", "harness_error")
        status_count[st] += 1
        for k, v in (res.get("counters") or {}).items():
            if isinstance(v, (int, float)):
                counters[k] += v
        if case.get("stratum"):
            strata[case["stratum"]] += 1
        if st in ("timeout", "crash", "harness_error", "notrun"):
            if len(inconclusive_cases) < 25:
                inconclusive_cases.append({"id": case.get("id"), "status": st, "detail": _trim(res.get("detail"), 1500)})
            continue
        for k in res.get("keys") or ([res["key"]] if res.get("key") else []):
            keys.add(k)
        if res.get("sample") is not None and len(samples) < 6:
            samples.append(_trim({"id": case.get("id"), **res["sample"]}))
        for failure in res.get("failures") or []:
            cls = res.get("classes") or []
            kf = findings.match(case, failure, cls)
            if dump:
                dump.write(json.dumps({"id": case.get("id"), "sig": failure.get("sig"), "classes": cls, "known": kf, "detail": _trim(failure.get("detail"), 1500)}, default=repr) + "\n")
            if kf:
                known_fired[kf] += 1
            else:
                violations.append((case, failure))
    if dump:
        dump.close()

    decided = status_count["pass"] + status_count["fail"]
    total = len(results)
    undecided = sum(status_count[s] for s in ("timeout", "crash", "harness_error", "notrun"))
    min_nontrivial = getattr(mod, "MIN_NONTRIVIAL", {}).get(tier, 2) if isinstance(getattr(mod, "MIN_NONTRIVIAL", 2), dict) else getattr(mod, "MIN_NONTRIVIAL", 2)
    required = getattr(mod, "REQUIRED_COUNTERS", [])
    reasons = []
    if total == 0 or decided == 0:
        reasons.append("no case decided")
    if total and undecided / total > 0.2:
        reasons.append(f"{undecided}/{total} cases timed out / crashed / harness errors")
    if status_count["harness_error"] > 0 and status_count["harness_error"] / max(total, 1) > 0.02:
        reasons.append(f"{status_count['harness_error']} harness errors")
    if len(keys) < max(2, min_nontrivial):
        reasons.append(f"only {len(keys)} distinct non-trivial cases (< {min_nontrivial})")
    for c in required:
        if counters.get(c, 0) <= 0:
            reasons.append(f"deciding monitor counter {c}=0")

    wall = time.monotonic() - t0
    extra_cov = {}
    if hasattr(mod, "extra_coverage"):
        try:
            extra_cov = mod.extra_coverage(tier, seed, results) or {}
        except Exception as e:  # pragma: no cover
            extra_cov = {"extra_coverage_error": repr(e)}
    if not samples:
        samples = [_trim(c) for c in cases[:3]]
    evidence = {
        "property_id": prop,
        "tier": tier,
        "seed": seed,
        "level": getattr(mod, "LEVEL", "exploration"),
        "coverage": {
            # a case may run the code under test several times (C26: one run per injected fault)
            "evaluations": sum((res or {}).get("executions", 1) for _, res in results),
            "cases": total,
            "distinct_nontrivial": len(keys),
            "rule": getattr(mod, "RULE", ""),
            "samples": samples,
            "decided": decided,
            "status": dict(status_count),
            "monitor_counters": dict(counters),
            "strata": dict(strata.most_common(60)),
            "known_findings_fired": dict(known_fired),
            "inconclusive_cases": inconclusive_cases,
            "verdict": "violated" if violations else ("inconclusive" if reasons else "held"),
            "inconclusive_reasons": reasons,
            **({"exhaustive": True} if getattr(mod, "EXHAUSTIVE", {}).get(tier) else {}),
            **extra_cov,
        },
        "assumptions": getattr(mod, "ASSUMPTIONS", []),
        "wall_s": round(wall, 2),
        "violations": len(violations),
    }
    os.makedirs(EVIDENCE_DIR, exist_ok=True)
    tmp = os.path.join(EVIDENCE_DIR, f".{prop}.json.tmp")
    with open(tmp, "w") as f:
        json.dump(evidence, f, indent=1, default=repr)
    os.replace(tmp, os.path.join(EVIDENCE_DIR, f"{prop}.json"))

    for kf, n in sorted(known_fired.items()):
        print(f"KNOWN-FINDING: property={prop} {kf} {findings.what(kf)} (fired on {n} case(s))")
    print(
        f"[{prop}] tier={tier} seed={seed} cases={total} decided={decided} "
        f"nontrivial={len(keys)} status={dict(status_count)} wall={wall:.1f}s"
    )
    if violations:
        seen = set()
        for case, failure in violations:
            k = (case.get("id"), failure.get("sig"))
            if k in seen:
                continue
            seen.add(k)
            if len(seen) > 20:
                break
            path = write_replay(prop, case, failure, seed, tier)
            print(f"VIOLATION property={prop} replay={path} case={case.get('id')} sig={failure.get('sig')}")
        return 1
    if reasons:
        print(f"INCONCLUSIVE property={prop} reason={'; '.join(reasons)}")
        return 2
    return 0


if __name__ == "__main__":
    sys.exit(main())
