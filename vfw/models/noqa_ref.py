"""Independent reference interpreter for noqa directives (C20)."""

from __future__ import annotations

import fnmatch
from typing import Optional


def build_ref_map(rule_tuples) -> dict:
    """name -> set(codes) with precedence code > name > group > alias."""
    m: dict = {}
    for code, name, _desc, groups, aliases in rule_tuples:  # aliases first (lowest)
        for a in aliases:
            m[a] = {code}
    groups_map: dict = {}
    for code, name, _desc, groups, aliases in rule_tuples:
        for g in groups:
            groups_map.setdefault(g, set()).add(code)
    m.update(groups_map)
    for code, name, _desc, groups, aliases in rule_tuples:
        m[name] = {code}
    for code, name, _desc, groups, aliases in rule_tuples:
        m[code] = {code}
    return m


def parse_directive(comment_text: str, ref_map: dict):
    """comment_text is the comment incl. its '--' marker(s) (or the inner text
    of a block comment).  Returns None (no directive), 'malformed', or a dict
    {action: None|'enable'|'disable', rules: None|frozenset}."""
    t = comment_text.strip()
    if t.startswith("/*"):
        t = t[2:]
        if t.endswith("*/"):
            t = t[:-2]
    t = t.split("--")[-1].strip()
    if not t.startswith("noqa"):
        return None
    rest = t[4:]
    if not rest:
        return {"action": None, "rules": None}
    if not rest.startswith(":"):
        return "malformed"
    rest = rest[1:].strip()
    if not rest:
        return {"action": None, "rules": None}
    action = None
    if "=" in rest:
        action, rest = rest.split("=", 1)
        if action not in ("enable", "disable"):
            return "malformed"
    elif rest in ("enable", "disable"):
        return "malformed"
    if rest == "all":
        return {"action": action, "rules": None}
    codes = set()
    for ref in (x.strip() for x in rest.split(",")):
        hit = False
        for key in ref_map:
            if fnmatch.fnmatchcase(key, ref):
                codes |= ref_map[key]
                hit = True
        if not hit:
            codes.add(ref)
    return {"action": action, "rules": frozenset(codes)}


def covers(d: dict, code: str) -> bool:
    return d["rules"] is None or code in d["rules"]


def hidden(directives: list, v_line: int, v_code: str):
    """directives: [(line, dict)] in file order.  Returns (is_hidden, by_plain_idx, by_range_idx)."""
    by_plain = None
    for i, (ln, d) in enumerate(directives):
        if d["action"] is None and ln == v_line and covers(d, v_code):
            by_plain = i
            break
    last = None
    for i, (ln, d) in sorted(enumerate(directives), key=lambda x: (x[1][0], x[0])):
        if d["action"] is not None and ln <= v_line and covers(d, v_code):
            last = (i, d)
    by_range = last[0] if last and last[1]["action"] == "disable" else None
    return (by_plain is not None or by_range is not None), by_plain, by_range


def unused_expectations(directives: list, violations: list):
    """Returns {idx: True (must warn) | False (must not warn)} only for the
    directives the statement decides unambiguously."""
    plain_cover: dict = {}
    range_decides: dict = {}
    for v_line, v_code in violations:
        _, bp, br = hidden(directives, v_line, v_code)
        for i, (ln, d) in enumerate(directives):
            if d["action"] is None and ln == v_line and covers(d, v_code):
                plain_cover.setdefault(i, []).append((v_line, v_code))
        if br is not None:
            range_decides.setdefault(br, []).append((v_line, v_code, bp is not None))
    out = {}
    for i, (ln, d) in enumerate(directives):
        if d["action"] is None:
            out[i] = not plain_cover.get(i)
        elif d["action"] == "disable":
            s = range_decides.get(i, [])
            if not s:
                out[i] = True
            elif any(not also_plain for _, _, also_plain in s):
                out[i] = False
    return out
