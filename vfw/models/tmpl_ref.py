"""Independent reference models for the python-format and placeholder templaters."""

from __future__ import annotations

import re
import string


class _Fmt(string.Formatter):
    """str.format semantics, except that a field name containing '.' is looked
    up as a whole in the ``sqlfluff`` mapping of the context."""

    def get_field(self, field_name, args, kwargs):
        if "." in field_name and "[" not in field_name:
            return kwargs["sqlfluff"][field_name], field_name
        return super().get_field(field_name, args, kwargs)


def pyfmt_render(source: str, ctx: dict) -> str:
    """Raises if the source is not a valid format string for this context."""
    return _Fmt().vformat(source, (), ctx)


# Literal snapshot of the documented placeholder styles (copied, not imported,
# so that a change to the table in the code under test is visible).
import regex as _regex  # the third-party module sqlfluff itself depends on

PH_STYLES = {
    "colon": r"(?<![:\w\x5c]):(?P<param_name>\w+)",
    "colon_optional_quotes": r"(?<!:):(?P<quotation>['\"]?)(?P<param_name>[\w_]+)\1",
    "colon_nospaces": r"(?<!:):(?P<param_name>\w+)",
    "numeric_colon": r"(?<![:\w\x5c]):(?P<param_name>\d+)",
    "pyformat": r"(?<![:\w\x5c])%\((?P<param_name>[\w_]+)\)s",
    "dollar": r"(?<![:\w\x5c])\${?(?P<param_name>[\w_]+)}?",
    "dollar_surround": r"(?<![:\w\x5c])\$(?P<param_name>[-\w]+)\$",
    "flyway_var": r"\${(?P<param_name>\w+[:\w_]+)}",
    "question_mark": r"(?<![:\w\x5c])\?",
    "numeric_dollar": r"(?<![:\w\x5c])\${?(?P<param_name>[\d]+)}?",
    "percent": r"(?<![:\w\x5c])%s",
    "ampersand": r"(?<!&)&{?(?P<param_name>[\w]+)}?",
}


def placeholder_render(source: str, style: str, values: dict):
    """Returns (rendered, [(span, param_name)])."""
    rx = _regex.compile(PH_STYLES[style], _regex.UNICODE)
    out = []
    pos = 0
    n = 1
    params = []
    for m in rx.finditer(source):
        gd = m.groupdict()
        if "param_name" in gd:
            name = m["param_name"]
        else:
            name = str(n)
            n += 1
        rep = str(values[name]) if name in values else name
        if "quotation" in gd:
            q = m["quotation"]
            rep = q + rep + q
        out.append(source[pos : m.start()])
        out.append(rep)
        params.append((m.span(), name))
        pos = m.end()
    out.append(source[pos:])
    return "".join(out), params
