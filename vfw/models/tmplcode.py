"""Independent extraction of the template-code sequence of a source file."""

from __future__ import annotations

import re
import string

import regex as _regex

from vfw.models.tmpl_ref import PH_STYLES

_PAD = re.compile(r"(?s)^(\{[{%#][-+]?)\s*(.*?)\s*([-+]?[}%#]\})$")


def jinja_tags(source: str, normalise_padding: bool = False):
    """Tags / expressions / comments of a Jinja source using Jinja's own lexer
    (not sqlfluff's tracer).  Each item is the text strictly from the opening to
    the closing delimiter.  Returns None if Jinja cannot lex the source."""
    import jinja2

    env = jinja2.Environment()
    out = []
    cur = None
    try:
        for _, tok, val in env.lex(source):
            if tok in ("variable_begin", "block_begin", "comment_begin", "raw_begin"):
                cur = [val.lstrip()] if tok != "raw_begin" else [val.lstrip()]
                if tok == "raw_begin":
                    out.append(_strict(val))
                    cur = None
                continue
            if tok in ("variable_end", "block_end", "comment_end", "raw_end"):
                if tok == "raw_end":
                    out.append(_strict(val))
                    cur = None
                    continue
                if cur is not None:
                    cur.append(val)
                    out.append(_strict("".join(cur)))
                cur = None
                continue
            if cur is not None:
                cur.append(val)
    except Exception:
        return None
    if normalise_padding:
        res = []
        for t in out:
            m = _PAD.match(t)
            res.append(m.group(1) + m.group(2) + m.group(3) if m else t)
        return res
    return out


_STRICT = re.compile(r"(?s)(\{[{%#].*[}%#]\})")


def _strict(text: str) -> str:
    m = _STRICT.search(text)
    return m.group(1) if m else text.strip()


def python_fields(source: str):
    try:
        return [(f, s, c) for _, f, s, c in string.Formatter().parse(source) if f is not None]
    except Exception:
        return None


def placeholder_params(source: str, style: str):
    rx = _regex.compile(PH_STYLES[style], _regex.UNICODE)
    return [m.group(0) for m in rx.finditer(source)]
