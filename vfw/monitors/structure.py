"""Structural oracles over live sqlfluff objects (M-TF, M-LEX, M-TREE).

Each ``check_*`` returns a list of failures ``{"sig": ..., "detail": ...}``;
an empty list means the object satisfied the oracle.  They only read public
attributes and never mutate anything.
"""

from __future__ import annotations

import re
from typing import Any, Optional


def _sl(s) -> tuple:
    return (s.start, s.stop)


# --------------------------------------------------------------------- M-TF
def check_templated_file(source_str, templated_str, sliced_file, raw_sliced) -> list:
    """C07: conditions on the arguments a templater hands to TemplatedFile."""
    fails = []
    if templated_str is None:
        templated_str = source_str
    if sliced_file is None and raw_sliced is None:
        if templated_str != source_str:
            fails.append({"sig": "unsliced_but_templated", "detail": {}})
        return fails
    n_src = len(source_str)
    # raw slices tile the source, in order, with matching text
    pos = 0
    for i, rfs in enumerate(raw_sliced or []):
        if rfs.source_idx != pos:
            fails.append({"sig": "raw_slices_not_tiling", "detail": {"i": i, "expected": pos, "got": rfs.source_idx}})
            break
        if source_str[pos : pos + len(rfs.raw)] != rfs.raw:
            fails.append({"sig": "raw_slice_text_mismatch", "detail": {"i": i, "raw": rfs.raw[:60], "src": source_str[pos : pos + len(rfs.raw)][:60]}})
            break
        pos += len(rfs.raw)
    else:
        if pos != n_src:
            fails.append({"sig": "raw_slices_not_tiling", "detail": {"end": pos, "len": n_src}})
    # templated slices tile templated_str from 0 to len, in order
    tpos = 0
    for i, tfs in enumerate(sliced_file or []):
        ts, ss = tfs.templated_slice, tfs.source_slice
        if ts.start != tpos or ts.stop < ts.start:
            fails.append({"sig": "templated_slices_not_tiling", "detail": {"i": i, "expected": tpos, "got": _sl(ts)}})
            break
        tpos = ts.stop
        if not (0 <= ss.start <= ss.stop <= n_src):
            fails.append({"sig": "source_slice_out_of_bounds", "detail": {"i": i, "slice": _sl(ss), "len": n_src}})
        elif tfs.slice_type == "literal" and ts.stop > ts.start:
            if source_str[ss] != templated_str[ts]:
                fails.append(
                    {
                        "sig": "literal_slice_text_mismatch",
                        "detail": {"i": i, "src": source_str[ss][:80], "tmpl": templated_str[ts][:80], "src_slice": _sl(ss), "tmpl_slice": _sl(ts)},
                    }
                )
    else:
        if sliced_file and tpos != len(templated_str):
            fails.append({"sig": "templated_slices_not_tiling", "detail": {"end": tpos, "len": len(templated_str)}})
        if not sliced_file and templated_str:
            fails.append({"sig": "templated_slices_not_tiling", "detail": {"end": 0, "len": len(templated_str)}})
    return fails


_WS_RUN = re.compile(r"[ \t]+")


def ws_run_spans_slice_boundary(tf) -> bool:
    """Input-decidable class: some maximal run of spaces/tabs in the rendered
    text crosses a boundary between two templated-file slices."""
    bounds = {s.templated_slice.start for s in tf.sliced_file} | {s.templated_slice.stop for s in tf.sliced_file}
    for m in _WS_RUN.finditer(tf.templated_str):
        for b in bounds:
            if m.start() < b < m.end():
                return True
    return False


def is_identity_map(tf) -> bool:
    sf = tf.sliced_file
    return (
        tf.source_str == tf.templated_str
        and len(sf) == 1
        and sf[0].slice_type == "literal"
        and _sl(sf[0].source_slice) == (0, len(tf.source_str))
        and _sl(sf[0].templated_slice) == (0, len(tf.source_str))
    )


# --------------------------------------------------------------------- M-LEX
def check_tokens(tf, segments, lex_violations, counters: Optional[dict] = None) -> list:
    """C01 oracle on one ``lex()`` return."""
    fails = []
    c = counters if counters is not None else {}
    tstr = tf.templated_str
    n_src = len(tf.source_str)
    identity = is_identity_map(tf)
    if not segments:
        return [{"sig": "no_tokens", "detail": {}}]
    joined = "".join(s.raw for s in segments)
    if joined != tstr:
        fails.append({"sig": "tokens_do_not_concatenate", "detail": {"got": joined[:200], "want": tstr[:200], "len_got": len(joined), "len_want": len(tstr)}})
    if type(segments[-1]).__name__ != "EndOfFile":
        fails.append({"sig": "missing_end_of_file", "detail": {"last": type(segments[-1]).__name__}})
    off = 0
    prev_src_start = 0
    loop_seen = False
    covered = []
    unlexable = 0
    # slices with non-zero rendered length, for the "token spans a backward
    # (loop) jump" exemption: such a token has no single source range.
    nz = [s for s in tf.sliced_file if s.templated_slice.stop > s.templated_slice.start]
    nz_starts = [s.templated_slice.start for s in nz]

    def spans_backward_jump(a: int, b: int) -> bool:
        import bisect

        i = max(0, bisect.bisect_right(nz_starts, a) - 1)
        prev = None
        while i < len(nz) and nz[i].templated_slice.start < b:
            if nz[i].templated_slice.stop > a:
                if prev is not None and nz[i].source_slice.start < prev.source_slice.stop:
                    return True
                prev = nz[i]
            i += 1
        return False
    for i, s in enumerate(segments):
        pm = s.pos_marker
        if pm is None:
            fails.append({"sig": "token_without_position", "detail": {"i": i, "raw": s.raw[:40]}})
            continue
        ss, ts = pm.source_slice, pm.templated_slice
        tname = type(s).__name__
        c["tokens_checked"] = c.get("tokens_checked", 0) + 1
        jump = s.raw != "" and spans_backward_jump(off, off + len(s.raw))
        if jump:
            c["tokens_spanning_loop_jump"] = c.get("tokens_spanning_loop_jump", 0) + 1
        if not (0 <= ss.start <= n_src and 0 <= ss.stop <= n_src) or (ss.start > ss.stop and not jump):
            fails.append({"sig": "token_source_out_of_bounds", "detail": {"i": i, "raw": s.raw[:40], "slice": _sl(ss), "len": n_src}})
        if tname == "TemplateLoop":
            loop_seen = True
            c["loop_markers"] = c.get("loop_markers", 0) + 1
        if s.raw == "":
            if tname == "TemplateSegment":
                c["placeholders"] = c.get("placeholders", 0) + 1
                covered.append((ss.start, ss.stop))
            continue
        covered.append((min(ss.start, ss.stop), max(ss.start, ss.stop)))
        # rendered-side position
        want = (off, off + len(s.raw))
        if _sl(ts) != want:
            is_ws = s.is_type("whitespace")
            if is_ws and ts.start <= want[0] and want[1] <= ts.stop and tstr[ts.start : ts.stop].strip(" \t") == "":
                fails.append({"sig": "split_whitespace_shares_templated_slice", "detail": {"i": i, "slice": _sl(ts), "want": want}})
            else:
                fails.append({"sig": "templated_slice_not_contiguous", "detail": {"i": i, "raw": s.raw[:40], "slice": _sl(ts), "want": want}})
        off += len(s.raw)
        # source side order
        if jump:
            loop_seen = True
        if ss.start < prev_src_start and not loop_seen:
            fails.append({"sig": "source_position_decreases", "detail": {"i": i, "raw": s.raw[:40], "start": ss.start, "prev": prev_src_start}})
        prev_src_start = ss.start
        loop_seen = jump
        if identity and _sl(ss) != _sl(ts):
            fails.append({"sig": "untemplated_source_ne_templated", "detail": {"i": i, "raw": s.raw[:40], "src": _sl(ss), "tmpl": _sl(ts)}})
        if identity and tf.source_str[ss] != s.raw:
            fails.append({"sig": "untemplated_source_text_mismatch", "detail": {"i": i, "raw": s.raw[:40], "src": tf.source_str[ss][:40]}})
        if s.is_type("unlexable"):
            unlexable += 1
    # coverage of the source by tokens U placeholders
    covered.sort()
    reach = 0
    gaps = []
    for a, b in covered:
        if a > reach:
            gaps.append((reach, a))
        reach = max(reach, b)
    if reach < n_src:
        gaps.append((reach, n_src))
    if gaps:
        where = "eof_suffix" if len(gaps) == 1 and gaps[0][1] == n_src else "interior"
        fails.append({"sig": f"source_not_covered:{where}", "detail": {"gaps": gaps[:5], "text": [tf.source_str[a:b][:40] for a, b in gaps[:5]]}})
    n_lxr = len(lex_violations or [])
    if unlexable != n_lxr:
        fails.append({"sig": "unlexable_without_lxr", "detail": {"unlexable": unlexable, "lxr": n_lxr}})
    c["unlexable_tokens"] = c.get("unlexable_tokens", 0) + unlexable
    # de-duplicate repeated signatures (keep first witness of each)
    seen = set()
    out = []
    for f in fails:
        if f["sig"] not in seen:
            seen.add(f["sig"])
            out.append(f)
    return out


# -------------------------------------------------------------------- M-TREE
def _tok_key(s) -> tuple:
    pm = s.pos_marker
    return (s.raw, pm.source_slice.start, pm.source_slice.stop, pm.templated_slice.start, pm.templated_slice.stop)


def check_tree_lossless(tokens, tree, parse_violations, counters: Optional[dict] = None) -> list:
    """C02 oracle: leaves (raw != '') == lexer tokens (raw != '')."""
    c = counters if counters is not None else {}
    fails = []
    if tree is None:
        if not parse_violations:
            fails.append({"sig": "no_tree_without_prs", "detail": {}})
        c["no_tree"] = c.get("no_tree", 0) + 1
        for v in parse_violations or []:
            d = getattr(v, "description", None) or str(v)
            if "completeness check fail" in d:
                # the parser itself noticed that tokens were lost / duplicated
                fails.append({"sig": "completeness_check_failed", "detail": {"prs": d[:300]}})
                break
        return fails
    want = [_tok_key(t) for t in tokens if t.raw != ""]
    got = [_tok_key(t) for t in tree.raw_segments if t.raw != ""]
    c["leaves_checked"] = c.get("leaves_checked", 0) + len(got)
    if want != got:
        # find first divergence
        i = 0
        while i < min(len(want), len(got)) and want[i] == got[i]:
            i += 1
        kind = "leaf_mismatch"
        if [w[0] for w in want] == [g[0] for g in got]:
            kind = "leaf_position_mismatch"
        elif len(got) < len(want):
            kind = "leaf_lost"
        elif len(got) > len(want):
            kind = "leaf_duplicated"
        fails.append({"sig": kind, "detail": {"index": i, "want": want[i : i + 3], "got": got[i : i + 3], "n_want": len(want), "n_got": len(got)}})
    # metas / placeholders from the lexer must also survive (order among them)
    want_ph = [(type(t).__name__, _sl(t.pos_marker.source_slice)) for t in tokens if type(t).__name__ in ("TemplateSegment", "TemplateLoop")]
    got_ph = [(type(t).__name__, _sl(t.pos_marker.source_slice)) for t in tree.raw_segments if type(t).__name__ in ("TemplateSegment", "TemplateLoop")]
    if want_ph != got_ph:
        fails.append({"sig": "placeholder_lost_or_reordered", "detail": {"want": want_ph[:6], "got": got_ph[:6]}})
    # unparsable <-> PRS
    unparsables = list(tree.iter_unparsables())
    c["unparsable_nodes"] = c.get("unparsable_nodes", 0) + len(unparsables)
    if unparsables and len(parse_violations or []) < len(unparsables):
        fails.append({"sig": "unparsable_without_prs", "detail": {"unparsable": len(unparsables), "prs": len(parse_violations or [])}})
    if not unparsables and parse_violations:
        fails.append({"sig": "prs_without_unparsable", "detail": {"prs": [getattr(v, "description", str(v))[:100] for v in parse_violations[:3]]}})
    return fails


def check_tree_wellformed(tree, counters: Optional[dict] = None, check_balance: bool = True) -> list:
    """C03 oracle."""
    c = counters if counters is not None else {}
    fails: list = []
    if tree is None:
        return fails
    sigs = set()

    def add(sig, detail):
        if sig not in sigs:
            sigs.add(sig)
            fails.append({"sig": sig, "detail": detail})

    stack = [(tree, ("file",))]
    while stack:
        node, path = stack.pop()
        kids = node.segments
        if not kids:
            continue
        c["nodes_checked"] = c.get("nodes_checked", 0) + 1
        pm = node.pos_marker
        kpm = [k.pos_marker for k in kids if k.pos_marker is not None]
        if pm is None or len(kpm) != len(kids):
            add("node_without_position", {"type": node.get_type(), "path": path[-4:]})
        else:
            hs = (min(m.source_slice.start for m in kpm), max(m.source_slice.stop for m in kpm))
            ht = (min(m.templated_slice.start for m in kpm), max(m.templated_slice.stop for m in kpm))
            if _sl(pm.source_slice) != hs:
                add("node_source_span_ne_children", {"type": node.get_type(), "span": _sl(pm.source_slice), "hull": hs, "path": path[-4:]})
            if _sl(pm.templated_slice) != ht:
                add("node_templated_span_ne_children", {"type": node.get_type(), "span": _sl(pm.templated_slice), "hull": ht, "path": path[-4:]})
            prev = None
            # NOTE: zero-width children (metas / template placeholders) are not
            # ordered against their neighbours: a placeholder can legitimately
            # sit in the middle of a token that spans it.
            for m in [k.pos_marker for k in kids if k.raw != ""]:
                if prev is not None and m.templated_slice.start < prev.templated_slice.start:
                    add("children_out_of_order", {"type": node.get_type(), "a": _sl(prev.templated_slice), "b": _sl(m.templated_slice), "path": path[-4:]})
                    break
                prev = m
        if not getattr(node, "can_start_end_non_code", False) and not node.is_type("file", "unparsable"):
            for end, k in (("starts", kids[0]), ("ends", kids[-1])):
                if not (k.is_code or k.is_meta):
                    add(f"node_{end}_with_non_code", {"type": node.get_type(), "child": k.get_type(), "raw": k.raw[:30], "path": path[-4:]})
        for k in kids:
            if k.segments:
                stack.append((k, path + (k.get_type(),)))
    if check_balance:
        bal = 0
        minbal = 0
        n_meta = 0
        for s in tree.raw_segments:
            iv = getattr(s, "indent_val", 0) if s.is_meta else 0
            if iv:
                n_meta += 1
                bal += iv
                if bal < minbal:
                    minbal = bal
        c["indent_metas"] = c.get("indent_metas", 0) + n_meta
        if minbal < 0:
            add("indent_balance_negative", {"min": minbal})
        if bal != 0:
            add(f"indent_balance_nonzero:{bal:+d}", {"where": _imbalance_path(tree)})
    return fails


def _subtree_balance(node) -> int:
    return sum(getattr(s, "indent_val", 0) for s in node.raw_segments if s.is_meta)


def _imbalance_path(tree) -> list:
    """Type path to the smallest subtree whose own indent sum is non-zero."""
    path = []
    node = tree
    while True:
        nxt = None
        for k in node.segments:
            if k.segments and _subtree_balance(k) != 0:
                if nxt is not None:
                    nxt = None
                    break
                nxt = k
        if nxt is None:
            break
        path.append(nxt.get_type())
        node = nxt
    return path[-5:]
