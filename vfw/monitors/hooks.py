"""Wrapper installation from outside the repository (no source change needed).

``wrap(owner, name, make)`` rebinds ``owner.name`` to ``make(original)`` and also
rebinds every alias of the identical function object found in loaded sqlfluff
modules (``from m import f`` copies would otherwise bypass the wrapper).
Wrappers observe, never mutate, and never raise into the code under test unless
they are failpoints.
"""

from __future__ import annotations

import functools
import sys
from typing import Any, Callable

_installed: list = []


def wrap(owner: Any, name: str, make: Callable[[Callable], Callable]) -> Callable:
    raw = owner.__dict__.get(name) if isinstance(owner, type) else getattr(owner, name)
    kind = None
    orig = raw
    if isinstance(raw, staticmethod):
        kind, orig = staticmethod, raw.__func__
    elif isinstance(raw, classmethod):
        kind, orig = classmethod, raw.__func__
    new = make(orig)
    try:
        functools.update_wrapper(new, orig)
    except Exception:
        pass
    new.__vfw_wrapped__ = orig
    setattr(owner, name, kind(new) if kind else new)
    _installed.append((owner, name, raw))
    if kind is None and not isinstance(owner, type):
        # module-level function: patch aliases in other sqlfluff modules
        for modname, mod in list(sys.modules.items()):
            if not modname.startswith("sqlfluff") or mod is None or mod is owner:
                continue
            for attr, val in list(getattr(mod, "__dict__", {}).items()):
                if val is orig:
                    setattr(mod, attr, new)
                    _installed.append((mod, attr, orig))
    return orig


def unwrap_all() -> None:
    while _installed:
        owner, name, raw = _installed.pop()
        setattr(owner, name, raw)


class Recorder:
    """Records TemplatedFile constructions, lex() returns and parse() calls made
    by whatever the workload runs."""

    def __init__(self):
        self.tf_events: list = []  # dicts
        self.lex_events: list = []  # (tf, segments, violations)
        self.parse_events: list = []  # (tokens, tree, exception)
        self.counts = {"tf_constructed": 0, "lex_calls": 0, "parse_calls": 0}

    def install(self, tf: bool = True, lex: bool = True, parse: bool = True) -> "Recorder":
        from sqlfluff.core.errors import SQLFluffSkipFile
        from sqlfluff.core.parser.lexer import PyLexer
        from sqlfluff.core.parser.parser import Parser
        from sqlfluff.core.templaters.base import TemplatedFile

        rec = self

        if tf:
            def make_init(orig):
                def __init__(self, source_str, fname, templated_str=None, sliced_file=None, raw_sliced=None):
                    ev = {
                        "source_str": source_str,
                        "templated_str": templated_str,
                        "sliced_file": list(sliced_file) if sliced_file is not None else None,
                        "raw_sliced": list(raw_sliced) if raw_sliced is not None else None,
                        "raised": None,
                    }
                    rec.counts["tf_constructed"] += 1
                    rec.tf_events.append(ev)
                    try:
                        return orig(self, source_str, fname, templated_str, sliced_file, raw_sliced)
                    except (SQLFluffSkipFile, AssertionError, ValueError) as e:
                        ev["raised"] = f"{type(e).__name__}: {str(e)[:200]}"
                        raise
                return __init__
            wrap(TemplatedFile, "__init__", make_init)

        if lex:
            def make_lex(orig):
                def lex(self, raw):
                    res = orig(self, raw)
                    rec.counts["lex_calls"] += 1
                    try:
                        segs, viols = res
                        tf_obj = segs[0].pos_marker.templated_file if segs else None
                        rec.lex_events.append((tf_obj, segs, viols, raw))
                    except Exception:
                        pass
                    return res
                return lex
            wrap(PyLexer, "lex", make_lex)

        if parse:
            def make_parse(orig):
                def parse(self, segments, fname=None, parse_statistics=False):
                    rec.counts["parse_calls"] += 1
                    try:
                        tree = orig(self, segments, fname=fname, parse_statistics=parse_statistics)
                    except BaseException as e:
                        rec.parse_events.append((segments, None, e))
                        raise
                    rec.parse_events.append((segments, tree, None))
                    return tree
                return parse
            wrap(Parser, "parse", make_parse)
        return self

    def reset(self) -> None:
        self.tf_events.clear()
        self.lex_events.clear()
        self.parse_events.clear()
